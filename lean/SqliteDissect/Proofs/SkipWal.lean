/-
The abstract "pages a commit wrote" of Proofs/TreeFrame.lean, for the WAL model: the version
interfaces of two consecutive commit records serve every page that has no frame in the later
record identically.
-/
import SqliteDissect.Proofs.TreeFrame
import SqliteDissect.Proofs.Wal
import SqliteDissect.Proofs.WalHistory

namespace SqliteDissect.Proofs.SkipWal
open SqliteDissect SqliteDissect.Model SqliteDissect.Proofs.TreeFrame SqliteDissect.Proofs.Wal

theorem dictGet?_nextPfi_other (fd : List (Nat × Frame)) (p : Nat) (hp : p ∉ fd.map (·.1)) :
    ∀ prev : List (Nat × Nat), dictGet? (nextPfi prev fd) p = dictGet? prev p := by
  unfold nextPfi
  induction fd with
  | nil => intro prev; rfl
  | cons e fd ih =>
    intro prev
    simp only [List.map_cons, List.mem_cons, not_or] at hp
    rw [List.foldl_cons, ih hp.2]
    unfold dictSet
    exact dictGet?_dictInsert_other _ _ _ _ hp.1

theorem dictGet?_nextPvi_other (keys : List Nat) (n p : Nat) (hp : p ∉ keys) (prev : List (Nat × Nat)) :
    dictGet? (nextPvi prev n keys) p = dictGet? prev p := by
  rw [dictGet?_nextPvi, if_neg hp]

theorem wal_agree (strict : Bool) (dbv : VersionIf) (wal : Wal) (number dbSize dbSize' : Nat)
    (pvi pfi : List (Nat × Nat)) (own : List Nat) (fd : List (Nat × Frame)) (p : Nat)
    (hp : p ∉ fd.map (·.1)) (hle : p ≤ dbSize) (hle' : p ≤ dbSize')
    (hown : ∀ q, dictGet? pvi q = some number → own.contains q = true)
    (hlt : ∀ q k, dictGet? pvi q = some k → k ≤ number) :
    Agree (walVersionIf strict dbv wal number dbSize pvi pfi own)
      (walVersionIf strict dbv wal (number + 1) dbSize' (nextPvi pvi (number + 1) (fd.map (·.1)))
        (nextPfi pfi fd) (fd.map (·.1))) p := by
  have hpvi := dictGet?_nextPvi_other (fd.map (·.1)) (number + 1) p hp pvi
  have hpfi := dictGet?_nextPfi_other fd p hp pfi
  have hsz : (p < 1 ∨ p > dbSize) ↔ (p < 1 ∨ p > dbSize') := by omega
  have hoff : (walVersionIf strict dbv wal number dbSize pvi pfi own).pageOffset p
      = (walVersionIf strict dbv wal (number + 1) dbSize' (nextPvi pvi (number + 1) (fd.map (·.1)))
        (nextPfi pfi fd) (fd.map (·.1))).pageOffset p := by
    simp only [walVersionIf, hpvi, hpfi]
    by_cases hc : p < 1 ∨ p > dbSize
    · rw [if_pos hc, if_pos (hsz.mp hc)]
    rw [if_neg hc, if_neg (fun h => hc (hsz.mpr h))]
    cases hpv : dictGet? pvi p with
    | none => rfl
    | some pv =>
      simp only
      by_cases h0 : pv = 0
      · rw [if_pos h0, if_pos h0]
      rw [if_neg h0, if_neg h0]
      have hk := hlt p pv hpv
      have c1 : ¬ (pv = number ∧ ¬ own.contains p = true) := by
        rintro ⟨rfl, hn⟩
        exact hn (hown p hpv)
      have c2 : ¬ (pv = number + 1 ∧ ¬ (fd.map (·.1)).contains p = true) := by
        rintro ⟨rfl, _⟩
        omega
      rw [if_neg c1, if_neg c2]
  refine ⟨?_, ?_, hoff⟩
  · funext off n
    have hoff' := hoff
    simp only [walVersionIf] at hoff' ⊢
    rw [hoff', hpvi]
  · simp only [walVersionIf, hpvi]

/-! ### the concrete version interfaces are coherent -/

theorem read_coherent (f : FileH) (base off len : Nat) (fb page : Buf)
    (h1 : f.read (base + off) 1 = .ok fb) (h2 : f.read base len = .ok page) (hoff : off < len)
    (hsz : fb.size = 1) : off < page.size ∧ page.rd off = fb.rd 0 := by
  unfold FileH.read at h1 h2
  split at h1
  · exact nomatch h1
  split at h1
  · exact nomatch h1
  split at h2
  · exact nomatch h2
  split at h2
  · exact nomatch h2
  simp only [Except.ok.injEq] at h1 h2
  subst h1 h2
  simp only [Buf.slice] at hsz ⊢
  have hlt : base + off < f.data.size := by omega
  refine ⟨by omega, ?_⟩
  rw [Nat.min_eq_left (by omega : base ≤ f.data.size), Nat.min_eq_left (by omega : base + off ≤ f.data.size)]
  rfl

theorem coherent_db (cfg : Config) (ps : Nat) (dsize : DbSize) (f : FileH) :
    Coherent (dbVersionIf cfg ps dsize f) := by
  intro n off fb page h1 h2 hsz
  simp only [dbVersionIf, dbGetData, Generated.PAGE_TYPE_LENGTH] at h1 h2
  split at h1
  · exact nomatch h1
  split at h1
  · exact nomatch h1
  split at h1
  · exact nomatch h1
  split at h2
  · exact nomatch h2
  split at h2
  · exact nomatch h2
  rw [Nat.add_zero] at h2
  rw [Nat.sub_zero] at h2
  exact read_coherent f ((n - 1) * ps) off ps fb page h1 h2 (by omega) hsz

theorem coherent_wal (strict : Bool) (dbv : VersionIf) (wal : Wal) (number dbSize : Nat)
    (pvi pfi : List (Nat × Nat)) (own : List Nat) (hdb : Coherent dbv) :
    Coherent (walVersionIf strict dbv wal number dbSize pvi pfi own) := by
  intro n off fb page h1 h2 hsz
  simp only [walVersionIf, Generated.PAGE_TYPE_LENGTH] at h1 h2
  cases hpv : dictGet? pvi n with
  | none => rw [hpv] at h1; exact nomatch h1
  | some pv =>
    rw [hpv] at h1 h2
    simp only at h1 h2
    by_cases h0 : pv = 0
    · rw [if_pos h0] at h1 h2
      exact hdb n off fb page h1 h2 hsz
    rw [if_neg h0] at h1 h2
    split at h1
    · exact nomatch h1
    split at h1
    · exact nomatch h1
    split at h2
    · exact nomatch h2
    split at h2
    · exact nomatch h2
    obtain ⟨po, hpo, h1⟩ := bind_ok h1
    obtain ⟨po', hpo', h2⟩ := bind_ok h2
    rw [hpo] at hpo'
    have e : po = po' := Except.ok.inj hpo'
    subst e
    rw [Nat.add_zero, Nat.sub_zero] at h2
    exact read_coherent wal.fh _ off wal.hdr.pageSize fb page h1 h2 (by omega) hsz

/-! ### `updatedBTree` of a commit record: every written page that is not page 1, a schema page,
a freelist page or a pointer-map page of the new version -/

theorem mem_foldl_erase {α : Type} (key : α → Nat) (p : Nat) : ∀ (l : List α) (u : List Nat),
    p ∈ u → (∀ e ∈ l, key e ≠ p) → p ∈ l.foldl (fun u e => u.erase (key e)) u := by
  intro l
  induction l with
  | nil => intro u hu _; exact hu
  | cons e l ih =>
    intro u hu hne
    rw [List.foldl_cons]
    refine ih _ ?_ (fun e' he' => hne e' (List.mem_cons_of_mem _ he'))
    exact (List.mem_erase_of_ne (hne e (List.mem_cons_self ..)).symm).mpr hu

theorem mem_foldl_erase_if (c : Nat → Bool) (p : Nat) : ∀ (l : List Nat) (u : List Nat),
    p ∈ u → p ∉ l → p ∈ l.foldl (fun u q => if c q then u.erase q else u) u := by
  intro l
  induction l with
  | nil => intro u hu _; exact hu
  | cons e l ih =>
    intro u hu hne
    simp only [List.mem_cons, not_or] at hne
    rw [List.foldl_cons]
    refine ih _ ?_ hne.2
    split
    · exact (List.mem_erase_of_ne hne.1).mpr hu
    · exact hu

theorem updatedBTree_complete (cfg : Config) (dbv : VersionIf) (wal : Wal) (number : Nat) (frames : List Frame)
    (prev : Version) (lastHdr : DbHeader) (lastSchema : MasterSchema) (lastRoot : List BPage) (enc : Nat)
    (ver : Version) (v : VersionIf)
    (h : makeCommitRecord cfg dbv wal number frames prev lastHdr lastSchema lastRoot enc = .ok (ver, v))
    (p : Nat) (hp : p ∈ ver.updated) (h1 : p ≠ 1)
    (hs : ∀ pn ∈ ver.schema.pages, pn.1 ≠ p)
    (hf : p ∉ ver.freelistNumbers) (hm : p ∉ ver.ptrmap.map (·.number)) :
    p ∈ ver.updatedBTree := by
  unfold makeCommitRecord at h
  split at h
  · exact nomatch h
  split at h
  · exact nomatch h
  split at h
  · exact nomatch h
  obtain ⟨⟨fd, committed, csize⟩, hr, h⟩ := bind_ok h
  simp only at h
  split at h
  · exact nomatch h
  obtain ⟨⟨ubt1, ownHdr, rootMod⟩, hub1, h⟩ := bind_ok h
  simp only at h
  split at h
  · exact nomatch h
  obtain ⟨flags, -, h⟩ := bind_ok h
  obtain ⟨⟨rootTree, schema, ubt2⟩, hub2, h⟩ := bind_ok h
  simp only at h
  obtain ⟨fl, -, h⟩ := bind_ok h
  split at h
  · exact nomatch h
  obtain ⟨pm, -, h⟩ := bind_ok h
  have hfin : ∀ (x : Version × VersionIf) (c : Py (List (Nat × String))),
      (if cfg.storeInMemory = true then (do let _ ← c; pure x) else (pure x : Py _)) = .ok (ver, v) → x = (ver, v) := by
    intro x c hx
    split at hx
    · obtain ⟨_, -, hx⟩ := bind_ok hx
      exact Except.ok.inj hx
    · exact Except.ok.inj hx
  have hx := hfin _ _ h
  injection hx with hv1 hv2
  subst hv1
  simp only at hp hs hf hm ⊢
  -- page 1
  have m1 : p ∈ ubt1 := by
    split at hub1
    · obtain ⟨page, -, hub1⟩ := bind_ok hub1
      obtain ⟨oh, -, hub1⟩ := bind_ok hub1
      simp only [pure, Except.pure, Except.ok.injEq, Prod.mk.injEq] at hub1
      rw [← hub1.1]
      exact (List.mem_erase_of_ne h1).mpr hp
    · simp only [pure, Except.pure, Except.ok.injEq, Prod.mk.injEq] at hub1
      rw [← hub1.1]; exact hp
  -- schema pages
  have m2 : p ∈ ubt2 := by
    split at hub2
    · obtain ⟨rt, -, hub2⟩ := bind_ok hub2
      obtain ⟨ms, -, hub2⟩ := bind_ok hub2
      simp only [pure, Except.pure, Except.ok.injEq, Prod.mk.injEq] at hub2
      obtain ⟨-, hms, hu⟩ := hub2
      rw [← hu]
      exact mem_foldl_erase (fun pn : Nat × String => pn.1) p ms.pages ubt1 m1 (by rw [hms]; exact hs)
    · simp only [pure, Except.pure, Except.ok.injEq, Prod.mk.injEq] at hub2
      rw [← hub2.2.2]; exact m1
  exact mem_foldl_erase_if _ p _ _ (mem_foldl_erase_if _ p _ _ m2 hf) hm

/-! ### putting it together for two consecutive commit records -/

theorem wal_served_bounds (strict : Bool) (dbv : VersionIf) (wal : Wal) (number dbSize : Nat)
    (pvi pfi : List (Nat × Nat)) (own : List Nat) (p : Nat)
    (h : Served (walVersionIf strict dbv wal number dbSize pvi pfi own) p) : 1 ≤ p ∧ p ≤ dbSize := by
  obtain ⟨⟨o, ho⟩, _⟩ := h
  simp only [walVersionIf] at ho
  split at ho
  · exact nomatch ho
  · omega

theorem dictGet?_mem {α : Type} (d : List (Nat × α)) (k : Nat) (x : α) (h : dictGet? d k = some x) :
    (k, x) ∈ d := by
  unfold dictGet? at h
  rw [Option.map_eq_some_iff] at h
  obtain ⟨e, he, rfl⟩ := h
  have hm := List.mem_of_find?_eq_some he
  have hk := List.find?_some he
  simp only [decide_eq_true_eq] at hk
  rw [← hk]
  exact hm

/-- the version-numbering check of `makeCommitRecord` -/
theorem commit_record_pvi_lt (cfg : Config) (dbv : VersionIf) (wal : Wal) (number : Nat) (frames : List Frame)
    (prev : Version) (lastHdr : DbHeader) (lastSchema : MasterSchema) (lastRoot : List BPage) (enc : Nat)
    (ver : Version) (v : VersionIf)
    (h : makeCommitRecord cfg dbv wal number frames prev lastHdr lastSchema lastRoot enc = .ok (ver, v)) :
    ∀ q k, dictGet? prev.pvi q = some k → k < number := by
  unfold makeCommitRecord at h
  split at h
  · exact nomatch h
  rename_i hany
  intro q k hk
  have hm := dictGet?_mem _ _ _ hk
  apply Classical.byContradiction
  intro hlt
  apply hany
  rw [List.any_eq_true]
  exact ⟨(q, k), hm, by simp only [ge_iff_le, decide_eq_true_eq]; omega⟩

/-- Soundness of the skip for two consecutive commit records of the WAL model: `prev` (record
`number`, interface `v`) and `ver` (record `number + 1`, interface `v'`).  The only hypotheses left
are those about the b-tree itself: the state of the iterator is the parse under `v`, the step
skipped, a re-read would succeed, and the new tree is disjoint from page 1, the schema pages, the
freelist and the pointer-map pages of the new version (C06). -/
theorem skip_sound_wal (cfg : Config) (dbv : VersionIf) (wal : Wal) (number : Nat)
    (frames0 frames1 : List Frame) (pprev prev ver : Version) (v v' : VersionIf)
    (lh0 lh1 : DbHeader) (ls0 ls1 : MasterSchema) (lr0 lr1 : List BPage) (enc0 enc1 : Nat)
    (hmk0 : makeCommitRecord cfg dbv wal number frames0 pprev lh0 ls0 lr0 enc0 = .ok (prev, v))
    (hmk1 : makeCommitRecord cfg dbv wal (number + 1) frames1 prev lh1 ls1 lr1 enc1 = .ok (ver, v'))
    (hdb : Coherent dbv)
    (fr : Nat) (isTable : Bool) (st st' : IterState) (root : Nat) (c : Commit) (t t' : List BPage)
    (hprev : getBTreeRoot v fr root = .ok t)
    (hpages : st.currentPages = treeAllPageNumbers t)
    (hcells : st.currentCells = (aggregateLeafCells t []).2.1)
    (hskip : st.currentPages.any ver.updatedBTree.contains = false)
    (hstep : historyStep fr isTable st ver v' root (some root) = .ok (c, st'))
    (hnext : getBTreeRoot v' fr root = .ok t')
    (hnew : ∀ p ∈ treeAllPageNumbers t', p ≠ 1 ∧ (∀ pn ∈ ver.schema.pages, pn.1 ≠ p) ∧
      p ∉ ver.freelistNumbers ∧ p ∉ ver.ptrmap.map (·.number)) :
    t' = t ∧
    diffCells isTable st.currentCells (aggregateLeafCells t' []).2.1 = ([], [], []) ∧
    c.added = [] ∧ c.updated = [] ∧ c.deleted = [] ∧ c.bTreeUpdated = false ∧
    c.pageNumbers = treeAllPageNumbers t' ∧ st' = st ∧
    st'.currentCells = (aggregateLeafCells t' []).2.1 ∧ st'.currentPages = treeAllPageNumbers t' := by
  obtain ⟨fd0, cs0, _, hn0, hsz0, hup0, hpvi0, _, hv0⟩ :=
    WalHistory.commit_record_indices cfg dbv wal number frames0 pprev lh0 ls0 lr0 enc0 prev v hmk0
  obtain ⟨fd1, cs1, _, hn1, hsz1, hup1, hpvi1, hpfi1, hv1⟩ :=
    WalHistory.commit_record_indices cfg dbv wal (number + 1) frames1 prev lh1 ls1 lr1 enc1 ver v' hmk1
  have hlt0 := commit_record_pvi_lt cfg dbv wal number frames0 pprev lh0 ls0 lr0 enc0 prev v hmk0
  have hlt1 := commit_record_pvi_lt cfg dbv wal (number + 1) frames1 prev lh1 ls1 lr1 enc1 ver v' hmk1
  have hown : ∀ q, dictGet? prev.pvi q = some number → (fd0.map (·.1)).contains q = true := by
    intro q hq
    rw [hpvi0, dictGet?_nextPvi] at hq
    split at hq
    · rename_i hmem; simpa using hmem
    · exact absurd (hlt0 q number hq) (by omega)
  have hc : Coherent v := by rw [hv0]; exact coherent_wal _ _ _ _ _ _ _ _ hdb
  have hc' : Coherent v' := by rw [hv1]; exact coherent_wal _ _ _ _ _ _ _ _ hdb
  have hag : ∀ p ∈ treeAllPageNumbers t, p ∈ treeAllPageNumbers t' → p ∉ ver.updated → Agree v v' p := by
    intro p hp hp' hw
    have hs := getBTreeRoot_served v hc fr root t hprev p hp
    have hs' := getBTreeRoot_served v' hc' fr root t' hnext p hp'
    rw [hv0] at hs
    rw [hv1] at hs'
    have hb := wal_served_bounds _ _ _ _ _ _ _ _ _ hs
    have hb' := wal_served_bounds _ _ _ _ _ _ _ _ _ hs'
    rw [hv0, hv1, hpvi1, hpfi1]
    rw [hup1] at hw
    have hlt : ∀ q k, dictGet? prev.pvi q = some k → k ≤ number := fun q k hk => by
      have := hlt1 q k hk; omega
    have key := wal_agree cfg.strict dbv wal number cs0 cs1 prev.pvi prev.pfi (fd0.map (·.1)) fd1 p hw hb.2 hb'.2
      hown hlt
    exact key
  have hps : v.pageSize = v'.pageSize := by rw [hv0, hv1]; rfl
  have hst : v.strict = v'.strict := by rw [hv0, hv1]; rfl
  exact skip_sound fr isTable st st' ver v v' root c t t' ver.updated
    (1 :: (ver.schema.pages.map (·.1) ++ ver.freelistNumbers ++ ver.ptrmap.map (·.number)))
    hps hst hc hc' hprev hpages hcells hskip hstep
    (by
      intro p hp hn
      simp only [List.mem_cons, List.mem_append, List.mem_map, not_or, not_exists, not_and] at hn
      exact updatedBTree_complete cfg dbv wal (number + 1) frames1 prev lh1 ls1 lr1 enc1 ver v' hmk1 p hp hn.1
        (fun pn hpn he => hn.2.1.1 pn hpn he) hn.2.1.2
        (by
          intro hm
          simp only [List.mem_map] at hm
          obtain ⟨pg, hpg, he⟩ := hm
          exact hn.2.2 pg hpg he))
    hnext hag
    (by
      intro p hp
      obtain ⟨h1, h2, h3, h4⟩ := hnew p hp
      simp only [List.mem_cons, List.mem_append, List.mem_map, not_or, not_exists, not_and]
      exact ⟨h1, ⟨fun pn hpn he => h2 pn hpn he, h3⟩, fun pg hpg he => h4 (List.mem_map.mpr ⟨pg, hpg, he⟩)⟩)

/-! ### the first commit record against the database file -/

theorem dictGet?_base (n p : Nat) :
    dictGet? ((List.range n).map fun i => (i + 1, 0)) p = if 1 ≤ p ∧ p ≤ n then some 0 else none := by
  induction n with
  | zero =>
    simp only [List.range_zero, List.map_nil, dictGet?_nil]
    rw [if_neg (by omega)]
  | succ n ih =>
    rw [List.range_succ, List.map_append, List.map_cons, List.map_nil, dictGet?_append_single, ih]
    by_cases h2 : n + 1 = p
    · subst h2
      rw [if_neg (by omega), if_pos rfl, if_pos (by omega)]
      rfl
    · have hiff : (1 ≤ p ∧ p ≤ n + 1) ↔ (1 ≤ p ∧ p ≤ n) := by omega
      rw [if_neg h2]
      by_cases h1 : 1 ≤ p ∧ p ≤ n
      · rw [if_pos h1, if_pos (hiff.mpr h1)]; rfl
      · rw [if_neg h1, if_neg (fun h => h1 (hiff.mp h))]; rfl

theorem db_served_bounds (cfg : Config) (ps : Nat) (dsize : DbSize) (f : FileH) (p : Nat)
    (h : Served (dbVersionIf cfg ps dsize f) p) : 1 ≤ p ∧ p ≤ dsize.floor := by
  obtain ⟨⟨o, ho⟩, _⟩ := h
  simp only [dbVersionIf] at ho
  split at ho
  · exact nomatch ho
  · omega

theorem base_agree (cfg : Config) (ps : Nat) (dsize : DbSize) (f : FileH) (wal : Wal)
    (hwps : wal.hdr.pageSize = ps) (cs1 : Nat) (pfi : List (Nat × Nat)) (fd : List (Nat × Frame)) (p : Nat)
    (hp : p ∉ fd.map (·.1)) (h1 : 1 ≤ p) (hn : p ≤ dsize.floor) (hcs : p ≤ cs1) :
    Agree (dbVersionIf cfg ps dsize f)
      (walVersionIf cfg.strict (dbVersionIf cfg ps dsize f) wal 1 cs1
        (nextPvi ((List.range dsize.floor).map fun i => (i + 1, 0)) 1 (fd.map (·.1)))
        (nextPfi pfi fd) (fd.map (·.1))) p := by
  have hpvi : dictGet? (nextPvi ((List.range dsize.floor).map fun i => (i + 1, 0)) 1 (fd.map (·.1))) p = some 0 := by
    rw [dictGet?_nextPvi_other _ _ _ hp, dictGet?_base, if_pos ⟨h1, hn⟩]
  refine ⟨?_, ?_, ?_⟩
  · funext off n
    simp only [walVersionIf, hpvi, if_true]
  · simp only [walVersionIf, hpvi, dbVersionIf]
    rw [if_pos ⟨h1, hn⟩]
  · simp only [walVersionIf, hpvi, dbVersionIf, if_true, hwps]
    rw [if_neg (by omega), if_neg (by omega)]

/-- the skip at the first commit record of a WAL, against the database file -/
theorem skip_sound_wal_first (cfg : Config) (ps : Nat) (dsize : DbSize) (f : FileH) (wal : Wal)
    (hwps : wal.hdr.pageSize = ps)
    (frames1 : List Frame) (prev ver : Version) (v' : VersionIf)
    (lh1 : DbHeader) (ls1 : MasterSchema) (lr1 : List BPage) (enc1 : Nat)
    (hbase : prev.pvi = (List.range dsize.floor).map fun i => (i + 1, 0))
    (hmk1 : makeCommitRecord cfg (dbVersionIf cfg ps dsize f) wal 1 frames1 prev lh1 ls1 lr1 enc1 = .ok (ver, v'))
    (fr : Nat) (isTable : Bool) (st st' : IterState) (root : Nat) (c : Commit) (t t' : List BPage)
    (hprev : getBTreeRoot (dbVersionIf cfg ps dsize f) fr root = .ok t)
    (hpages : st.currentPages = treeAllPageNumbers t)
    (hcells : st.currentCells = (aggregateLeafCells t []).2.1)
    (hskip : st.currentPages.any ver.updatedBTree.contains = false)
    (hstep : historyStep fr isTable st ver v' root (some root) = .ok (c, st'))
    (hnext : getBTreeRoot v' fr root = .ok t')
    (hnew : ∀ p ∈ treeAllPageNumbers t', p ≠ 1 ∧ (∀ pn ∈ ver.schema.pages, pn.1 ≠ p) ∧
      p ∉ ver.freelistNumbers ∧ p ∉ ver.ptrmap.map (·.number)) :
    t' = t ∧
    diffCells isTable st.currentCells (aggregateLeafCells t' []).2.1 = ([], [], []) ∧
    c.added = [] ∧ c.updated = [] ∧ c.deleted = [] ∧ c.bTreeUpdated = false ∧
    c.pageNumbers = treeAllPageNumbers t' ∧ st' = st ∧
    st'.currentCells = (aggregateLeafCells t' []).2.1 ∧ st'.currentPages = treeAllPageNumbers t' := by
  obtain ⟨fd1, cs1, _, hn1, hsz1, hup1, hpvi1, hpfi1, hv1⟩ :=
    WalHistory.commit_record_indices cfg _ wal 1 frames1 prev lh1 ls1 lr1 enc1 ver v' hmk1
  have hc : Coherent (dbVersionIf cfg ps dsize f) := coherent_db cfg ps dsize f
  have hc' : Coherent v' := by rw [hv1]; exact coherent_wal _ _ _ _ _ _ _ _ hc
  have hag : ∀ p ∈ treeAllPageNumbers t, p ∈ treeAllPageNumbers t' → p ∉ ver.updated →
      Agree (dbVersionIf cfg ps dsize f) v' p := by
    intro p hp hp' hw
    have hs := getBTreeRoot_served _ hc fr root t hprev p hp
    have hs' := getBTreeRoot_served v' hc' fr root t' hnext p hp'
    rw [hv1] at hs'
    have hb := db_served_bounds _ _ _ _ _ hs
    have hb' := wal_served_bounds _ _ _ _ _ _ _ _ _ hs'
    rw [hv1, hpvi1, hpfi1, hbase]
    rw [hup1] at hw
    exact base_agree cfg ps dsize f wal hwps cs1 prev.pfi fd1 p hw hb.1 hb.2 hb'.2
  have hps : (dbVersionIf cfg ps dsize f).pageSize = v'.pageSize := by rw [hv1]; exact hwps.symm
  have hst : (dbVersionIf cfg ps dsize f).strict = v'.strict := by rw [hv1]; rfl
  exact skip_sound fr isTable st st' ver _ v' root c t t' ver.updated
    (1 :: (ver.schema.pages.map (·.1) ++ ver.freelistNumbers ++ ver.ptrmap.map (·.number)))
    hps hst hc hc' hprev hpages hcells hskip hstep
    (by
      intro p hp hn
      simp only [List.mem_cons, List.mem_append, List.mem_map, not_or, not_exists, not_and] at hn
      exact updatedBTree_complete cfg _ wal 1 frames1 prev lh1 ls1 lr1 enc1 ver v' hmk1 p hp hn.1
        (fun pn hpn he => hn.2.1.1 pn hpn he) hn.2.1.2
        (by
          intro hm
          simp only [List.mem_map] at hm
          obtain ⟨pg, hpg, he⟩ := hm
          exact hn.2.2 pg hpg he))
    hnext hag
    (by
      intro p hp
      obtain ⟨h1, h2, h3, h4⟩ := hnew p hp
      simp only [List.mem_cons, List.mem_append, List.mem_map, not_or, not_exists, not_and]
      exact ⟨h1, ⟨fun pn hpn he => h2 pn hpn he, h3⟩, fun pg hpg he => h4 (List.mem_map.mpr ⟨pg, hpg, he⟩)⟩)

end SqliteDissect.Proofs.SkipWal
