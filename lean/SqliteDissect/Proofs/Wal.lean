import SqliteDissect.Model.Wal
import SqliteDissect.Spec.WalFmt
namespace SqliteDissect.Proofs.Wal
open SqliteDissect SqliteDissect.Model

/-! ### groupFrames -/

theorem groupFrames_cons (f : Frame) (rest cur : List Frame) (acc : List (List Frame)) :
    groupFrames (f :: rest) cur acc =
      if f.isCommit then groupFrames rest [] ((f :: cur).reverse :: acc) else groupFrames rest (f :: cur) acc := by
  rw [groupFrames]

theorem group_gen (fs : List Frame) : ∀ (cur : List Frame) (acc gs : List (List Frame)) (rest : List Frame),
    groupFrames fs cur acc = (gs, rest) → (∀ f ∈ cur, f.isCommit = false) →
    ∃ gs', gs = acc.reverse ++ gs' ∧ gs'.flatten ++ rest = cur.reverse ++ fs ∧
      (∀ g ∈ gs', ∃ init last, g = init ++ [last] ∧ last.isCommit = true ∧ ∀ f ∈ init, f.isCommit = false) ∧
      (∀ f ∈ rest, f.isCommit = false) := by
  induction fs with
  | nil =>
    intro cur acc gs rest h hc
    simp only [groupFrames, Prod.mk.injEq] at h
    refine ⟨[], ?_, ?_, ?_, ?_⟩
    · simp [h.1]
    · simp [h.2]
    · simp
    · intro f hf; rw [← h.2] at hf; exact hc f (List.mem_reverse.mp hf)
  | cons f fs ih =>
    intro cur acc gs rest h hc
    unfold groupFrames at h
    by_cases hf : f.isCommit = true
    · rw [if_pos hf] at h
      obtain ⟨gs', h1, h2, h3, h4⟩ := ih [] _ gs rest h (by simp)
      refine ⟨(f :: cur).reverse :: gs', ?_, ?_, ?_, h4⟩
      · rw [h1]; simp
      · simp only [List.flatten_cons, List.reverse_cons, List.append_assoc]
        rw [h2]; simp
      · intro g hg
        rcases List.mem_cons.mp hg with rfl | hg
        · exact ⟨cur.reverse, f, by simp, hf, fun x hx => hc x (List.mem_reverse.mp hx)⟩
        · exact h3 g hg
    · rw [if_neg hf] at h
      have hf' : f.isCommit = false := by simpa using hf
      obtain ⟨gs', h1, h2, h3, h4⟩ := ih (f :: cur) acc gs rest h (by
        intro x hx; rcases List.mem_cons.mp hx with rfl | hx
        · exact hf'
        · exact hc x hx)
      refine ⟨gs', h1, ?_, h3, h4⟩
      rw [h2]; simp

theorem group_spec (fs : List Frame) (gs : List (List Frame)) (rest : List Frame)
    (h : groupFrames fs [] [] = (gs, rest)) :
    gs.flatten ++ rest = fs ∧
    (∀ g ∈ gs, ∃ init last, g = init ++ [last] ∧ last.isCommit = true ∧ ∀ f ∈ init, f.isCommit = false) ∧
    (∀ f ∈ rest, f.isCommit = false) := by
  obtain ⟨gs', h1, h2, h3, h4⟩ := group_gen fs [] [] gs rest h (by simp)
  simp only [List.reverse_nil, List.nil_append] at h1 h2
  subst h1
  exact ⟨h2, h3, h4⟩

theorem group_count_gen (fs : List Frame) : ∀ (cur : List Frame) (acc : List (List Frame)),
    (groupFrames fs cur acc).1.length = acc.length + (fs.filter Frame.isCommit).length := by
  induction fs with
  | nil => intro cur acc; simp [groupFrames]
  | cons f fs ih =>
    intro cur acc
    unfold groupFrames
    by_cases hf : f.isCommit = true
    · rw [if_pos hf, ih, List.filter_cons_of_pos hf]; simp; omega
    · rw [if_neg hf, ih, List.filter_cons_of_neg hf]

theorem version_count (fs : List Frame) :
    (groupFrames fs [] []).1.length = (fs.filter Frame.isCommit).length := by
  rw [group_count_gen]; simp

theorem group_append (a b : List Frame) : ∀ (cur : List Frame) (acc : List (List Frame)),
    groupFrames (a ++ b) cur acc
      = groupFrames b (groupFrames a cur acc).2.reverse (groupFrames a cur acc).1.reverse := by
  induction a with
  | nil => intro cur acc; simp [groupFrames]
  | cons f a ih =>
    intro cur acc
    simp only [List.cons_append, groupFrames_cons]
    by_cases hf : f.isCommit = true
    · simp only [if_pos hf]; rw [ih]
    · simp only [if_neg hf]; rw [ih]

theorem group_fst_prefix (fs : List Frame) : ∀ (cur : List Frame) (acc : List (List Frame)),
    acc.reverse <+: (groupFrames fs cur acc).1 := by
  induction fs with
  | nil => intro cur acc; simp [groupFrames]
  | cons f fs ih =>
    intro cur acc
    unfold groupFrames
    by_cases hf : f.isCommit = true
    · rw [if_pos hf]
      refine List.IsPrefix.trans ?_ (ih _ _)
      simp
    · rw [if_neg hf]; exact ih _ _

theorem group_ends_commit (init : List Frame) (last : Frame) (hl : last.isCommit = true) :
    (groupFrames (init ++ [last]) [] []).2 = [] := by
  rw [group_append]
  simp [groupFrames, hl]

theorem group_prefix (fs1 fs2 : List Frame) (init : List Frame) (last : Frame)
    (h1 : fs1 = init ++ [last]) (hl : last.isCommit = true) :
    (groupFrames fs1 [] []).1 <+: (groupFrames (fs1 ++ fs2) [] []).1 ∧ (groupFrames fs1 [] []).2 = [] := by
  subst h1
  refine ⟨?_, group_ends_commit init last hl⟩
  rw [group_append (init ++ [last]) fs2]
  have := group_fst_prefix fs2 (groupFrames (init ++ [last]) [] []).2.reverse (groupFrames (init ++ [last]) [] []).1.reverse
  simpa using this


/-! ### dictionaries -/

theorem dictGet?_nil {α : Type} (k : Nat) : dictGet? ([] : List (Nat × α)) k = none := rfl

theorem dictGet?_cons {α : Type} (e : Nat × α) (d : List (Nat × α)) (k : Nat) :
    dictGet? (e :: d) k = if e.1 = k then some e.2 else dictGet? d k := by
  unfold dictGet?
  by_cases h : e.1 = k <;> simp [h]

theorem dictGet?_append_single {α : Type} (d : List (Nat × α)) (k' k : Nat) (x : α) :
    dictGet? (d ++ [(k', x)]) k = (dictGet? d k).or (if k' = k then some x else none) := by
  induction d with
  | nil => simp [dictGet?_cons, dictGet?_nil]
  | cons e d ih =>
    simp only [List.cons_append, dictGet?_cons, ih]
    by_cases h : e.1 = k <;> simp [h]

theorem dictGet?_eq_none_iff {α : Type} (d : List (Nat × α)) (k : Nat) :
    dictGet? d k = none ↔ k ∉ d.map (·.1) := by
  induction d with
  | nil => simp [dictGet?_nil]
  | cons e d ih =>
    simp only [dictGet?_cons, List.map_cons, List.mem_cons, not_or]
    by_cases h : e.1 = k
    · simp [h]
    · simp only [h, if_false, ih]
      constructor
      · intro h2; exact ⟨fun h3 => h h3.symm, h2⟩
      · intro h2; exact h2.2

theorem any_key_iff {α : Type} (d : List (Nat × α)) (k : Nat) :
    d.any (fun e => decide (e.1 = k)) = true ↔ k ∈ d.map (·.1) := by
  simp only [List.any_eq_true, decide_eq_true_eq, List.mem_map]

theorem dictGet?_map_replace {α : Type} (d : List (Nat × α)) (k k' : Nat) (x : α) :
    dictGet? (d.map (fun e => if e.1 = k then (k, x) else e)) k'
      = if k' = k then (dictGet? d k').map (fun _ => x) else dictGet? d k' := by
  induction d with
  | nil => simp [dictGet?_nil]
  | cons e d ih =>
    simp only [List.map_cons, dictGet?_cons, ih]
    by_cases h1 : e.1 = k <;> by_cases h2 : k' = k <;> by_cases h3 : e.1 = k' <;> simp_all

theorem dictGet?_dictInsert_same {α : Type} (d : List (Nat × α)) (k : Nat) (x : α) :
    dictGet? (dictInsert d k x) k = some x := by
  unfold dictInsert
  by_cases h : d.any (fun e => decide (e.1 = k)) = true
  · rw [if_pos h, dictGet?_map_replace, if_pos rfl]
    have : dictGet? d k ≠ none := by
      rw [Ne, dictGet?_eq_none_iff]; exact fun hn => hn ((any_key_iff d k).mp h)
    cases hd : dictGet? d k with
    | none => exact absurd hd this
    | some v => rfl
  · rw [if_neg h, dictGet?_append_single, if_pos rfl]
    have : dictGet? d k = none := by
      rw [dictGet?_eq_none_iff]; exact fun hn => h ((any_key_iff d k).mpr hn)
    rw [this]; rfl

theorem dictGet?_dictInsert_other {α : Type} (d : List (Nat × α)) (k k' : Nat) (x : α) (hne : k' ≠ k) :
    dictGet? (dictInsert d k x) k' = dictGet? d k' := by
  unfold dictInsert
  by_cases h : d.any (fun e => decide (e.1 = k)) = true
  · rw [if_pos h, dictGet?_map_replace, if_neg hne]
  · rw [if_neg h, dictGet?_append_single, if_neg (fun h => hne h.symm)]; simp

theorem keys_dictInsert {α : Type} (d : List (Nat × α)) (k : Nat) (x : α) :
    (dictInsert d k x).map (·.1) = if k ∈ d.map (·.1) then d.map (·.1) else d.map (·.1) ++ [k] := by
  unfold dictInsert
  by_cases h : d.any (fun e => decide (e.1 = k)) = true
  · rw [if_pos h, if_pos ((any_key_iff d k).mp h), List.map_map]
    apply List.map_congr_left
    intro e _
    by_cases he : e.1 = k <;> simp [he]
  · rw [if_neg h, if_neg (fun hn => h ((any_key_iff d k).mpr hn))]; simp

theorem keys_nodup_dictInsert {α : Type} (d : List (Nat × α)) (k : Nat) (x : α)
    (h : (d.map (·.1)).Nodup) : ((dictInsert d k x).map (·.1)).Nodup := by
  rw [keys_dictInsert]
  by_cases hk : k ∈ d.map (·.1)
  · rw [if_pos hk]; exact h
  · rw [if_neg hk]
    rw [List.nodup_append]
    refine ⟨h, by simp, ?_⟩
    intro a ha b hb
    simp only [List.mem_singleton] at hb
    subst hb
    exact fun hab => hk (hab ▸ ha)

theorem mem_keys_dictInsert {α : Type} (d : List (Nat × α)) (k k' : Nat) (x : α) :
    k' ∈ (dictInsert d k x).map (·.1) ↔ k' = k ∨ k' ∈ d.map (·.1) := by
  rw [keys_dictInsert]
  by_cases hk : k ∈ d.map (·.1)
  · rw [if_pos hk]
    constructor
    · exact Or.inr
    · rintro (rfl | h)
      · exact hk
      · exact h
  · rw [if_neg hk]; simp [or_comm]
abbrev RecSt := List (Nat × Frame) × Bool × Nat

def recStep (st : RecSt) (f : Frame) : Py RecSt :=
  if f.isCommit ∧ st.2.1 then (.error .parseError : Py RecSt)
  else pure (dictInsert st.1 f.hdr.pageNumber f, st.2.1 ∨ f.isCommit, if f.isCommit then f.hdr.sizeAfterCommit else st.2.2)

theorem recordFrames_eq (g : List Frame) : recordFrames g = g.foldlM recStep ([], false, 0) := rfl

set_option pp.all false in
theorem recStep_mk (d c s f) : recStep (d, c, s) f = 
   if f.isCommit = true ∧ c = true then .error .parseError
   else .ok (dictInsert d f.hdr.pageNumber f, c || f.isCommit, if f.isCommit then f.hdr.sizeAfterCommit else s) := by
  unfold recStep
  simp
  rfl

def recIns (d : List (Nat × Frame)) (f : Frame) : List (Nat × Frame) := dictInsert d f.hdr.pageNumber f

def lastOf (g : List Frame) (p : Nat) : Option Frame :=
  (g.filter fun f => f.hdr.pageNumber = p).getLast?

theorem latestFrame_eq (g : List Frame) (p : Nat) : Spec.latestFrame g p = (lastOf g p).map Frame.number := rfl

theorem lastOf_nil (p : Nat) : lastOf [] p = none := rfl

theorem lastOf_append (a b : List Frame) (p : Nat) : lastOf (a ++ b) p = (lastOf b p).or (lastOf a p) := by
  unfold lastOf
  rw [List.filter_append, List.getLast?_append]

theorem lastOf_single (f : Frame) (p : Nat) : lastOf [f] p = if f.hdr.pageNumber = p then some f else none := by
  unfold lastOf
  by_cases h : f.hdr.pageNumber = p <;> simp [h]

theorem lastOf_cons (f : Frame) (g : List Frame) (p : Nat) :
    lastOf (f :: g) p = (lastOf g p).or (if f.hdr.pageNumber = p then some f else none) := by
  rw [← lastOf_single, ← lastOf_append]; rfl

theorem lastOf_isSome (g : List Frame) (p : Nat) :
    (lastOf g p).isSome = g.any (fun f => f.hdr.pageNumber = p) := by
  induction g with
  | nil => rfl
  | cons f g ih =>
    rw [lastOf_cons, List.any_cons, Option.isSome_or, ih]
    by_cases h : f.hdr.pageNumber = p <;> simp [h, Bool.or_comm]

theorem recordFrames_fd (g : List Frame) : ∀ (d : List (Nat × Frame)) (c : Bool) (s : Nat) (r : RecSt),
    g.foldlM recStep (d, c, s) = .ok r → r.1 = g.foldl recIns d := by
  induction g with
  | nil => intro d c s r h; simp only [List.foldlM_nil, pure, Except.pure, Except.ok.injEq] at h; subst h; rfl
  | cons f g ih =>
    intro d c s r h
    rw [List.foldlM_cons, recStep_mk] at h
    by_cases hc : f.isCommit = true ∧ c = true
    · rw [if_pos hc] at h; exact nomatch h
    · rw [if_neg hc] at h
      exact ih _ _ _ r h

theorem dictGet?_recDict (g : List Frame) (p : Nat) : ∀ d : List (Nat × Frame),
    dictGet? (g.foldl recIns d) p = (lastOf g p).or (dictGet? d p) := by
  induction g with
  | nil => intro d; simp [lastOf_nil]
  | cons f g ih =>
    intro d
    rw [List.foldl_cons, ih, lastOf_cons, Option.or_assoc]
    congr 1
    unfold recIns
    by_cases h : f.hdr.pageNumber = p
    · subst h; rw [dictGet?_dictInsert_same]; simp
    · rw [dictGet?_dictInsert_other _ _ _ _ (fun h' => h h'.symm)]; simp [h]

theorem nodup_recDict (g : List Frame) : ∀ d : List (Nat × Frame),
    (d.map (·.1)).Nodup → ((g.foldl recIns d).map (·.1)).Nodup := by
  induction g with
  | nil => intro d h; exact h
  | cons f g ih => intro d h; exact ih _ (keys_nodup_dictInsert _ _ _ h)

theorem mem_keys_iff {α : Type} (d : List (Nat × α)) (k : Nat) :
    k ∈ d.map (·.1) ↔ (dictGet? d k).isSome = true := by
  have := dictGet?_eq_none_iff d k
  cases h : dictGet? d k with
  | none => simp [h] at this; simpa using this
  | some v => simp [h] at this; simpa using this

/-- lookup after `nextPfi` -/
theorem dictGet?_nextPfi (fd : List (Nat × Frame)) (p : Nat) : ∀ prev : List (Nat × Nat),
    (fd.map (·.1)).Nodup →
    dictGet? (nextPfi prev fd) p = ((dictGet? fd p).map Frame.number).or (dictGet? prev p) := by
  unfold nextPfi
  induction fd with
  | nil => intro prev _; simp [dictGet?_nil]
  | cons e fd ih =>
    intro prev hnd
    rw [List.map_cons, List.nodup_cons] at hnd
    rw [List.foldl_cons, ih _ hnd.2, dictGet?_cons]
    unfold dictSet
    by_cases h : e.1 = p
    · subst h
      rw [dictGet?_dictInsert_same, (dictGet?_eq_none_iff fd e.1).mpr hnd.1]
      simp
    · rw [dictGet?_dictInsert_other _ _ _ _ (fun h' => h h'.symm), if_neg h]

theorem dictGet?_nextPvi (keys : List Nat) (n p : Nat) : ∀ prev : List (Nat × Nat),
    dictGet? (nextPvi prev n keys) p = if p ∈ keys then some n else dictGet? prev p := by
  unfold nextPvi
  induction keys with
  | nil => intro prev; simp
  | cons k keys ih =>
    intro prev
    rw [List.foldl_cons, ih]
    unfold dictSet
    by_cases h1 : p ∈ keys
    · simp [h1]
    · by_cases h2 : p = k
      · subst h2; simp [h1, dictGet?_dictInsert_same]
      · simp [h1, h2, dictGet?_dictInsert_other _ _ _ _ h2]

theorem recordFrames_ok_fd (g : List Frame) (fd : List (Nat × Frame)) (c : Bool) (s : Nat)
    (h : recordFrames g = .ok (fd, c, s)) : fd = g.foldl recIns [] := by
  rw [recordFrames_eq] at h
  exact recordFrames_fd g [] false 0 _ h

theorem recDict_nodup (g : List Frame) : ((g.foldl recIns []).map (·.1)).Nodup :=
  nodup_recDict g [] (by simp)

theorem recDict_get (g : List Frame) (p : Nat) : dictGet? (g.foldl recIns []) p = lastOf g p := by
  rw [dictGet?_recDict]; simp [dictGet?_nil]

theorem pfi_gen (gs : List (List Frame)) (p : Nat)
    (hok : ∀ g ∈ gs, ∃ r, recordFrames g = .ok r) : ∀ pfi0 : List (Nat × Nat),
    dictGet? (gs.foldl (fun pfi g =>
        match recordFrames g with
        | .ok (fd, _, _) => nextPfi pfi fd
        | .error _ => pfi) pfi0) p
      = (Spec.latestFrame gs.flatten p).or (dictGet? pfi0 p) := by
  induction gs with
  | nil => intro pfi0; simp [Spec.latestFrame]
  | cons g gs ih =>
    intro pfi0
    obtain ⟨⟨fd, c, s⟩, hr⟩ := hok g (by simp)
    rw [List.foldl_cons, ih (fun g' hg' => hok g' (by simp [hg']))]
    simp only [hr]
    have hfd := recordFrames_ok_fd g fd c s hr
    subst hfd
    rw [dictGet?_nextPfi _ _ _ (recDict_nodup g), recDict_get, List.flatten_cons, latestFrame_eq, latestFrame_eq,
      lastOf_append, ← Option.or_assoc]
    congr 1
    simp only [Option.map_or]

theorem page_frame_index_latest (gs : List (List Frame)) (p : Nat)
    (hok : ∀ g ∈ gs, ∃ r, recordFrames g = .ok r) :
    dictGet? (gs.foldl (fun pfi g =>
        match recordFrames g with
        | .ok (fd, _, _) => nextPfi pfi fd
        | .error _ => pfi) []) p
      = Spec.latestFrame gs.flatten p := by
  rw [pfi_gen gs p hok]; simp [dictGet?_nil]

theorem pvi_gen (gs : List (List Frame)) (p : Nat)
    (hok : ∀ g ∈ gs, ∃ r, recordFrames g = .ok r) : ∀ (n : Nat) (base : List (Nat × Nat)),
    dictGet? ((gs.zipIdx n).foldl (fun pvi (gk : List Frame × Nat) =>
        match recordFrames gk.1 with
        | .ok (fd, _, _) => nextPvi pvi gk.2 (fd.map (·.1))
        | .error _ => pvi) base) p
      = match Spec.latestTxn gs p with
        | some k => some (n + k - 1)
        | none => dictGet? base p := by
  induction gs with
  | nil => intro n base; simp [Spec.latestTxn]
  | cons g gs ih =>
    intro n base
    obtain ⟨⟨fd, c, s⟩, hr⟩ := hok g (by simp)
    rw [List.zipIdx_cons, List.foldl_cons, ih (fun g' hg' => hok g' (by simp [hg']))]
    simp only [hr, Spec.latestTxn]
    have hfd := recordFrames_ok_fd g fd c s hr
    subst hfd
    cases hl : Spec.latestTxn gs p with
    | some k => simp only; congr 1; omega
    | none =>
      simp only
      rw [dictGet?_nextPvi]
      have hk : p ∈ (g.foldl recIns []).map (·.1) ↔ (g.any fun f => decide (f.hdr.pageNumber = p)) = true := by
        rw [mem_keys_iff, recDict_get, lastOf_isSome]
      by_cases ha : (g.any fun f => decide (f.hdr.pageNumber = p)) = true
      · rw [if_pos (hk.mpr ha), if_pos ha]; simp
      · rw [if_neg (fun h => ha (hk.mp h)), if_neg ha]

theorem page_version_index_latest (gs : List (List Frame)) (base : List (Nat × Nat)) (p : Nat)
    (hok : ∀ g ∈ gs, ∃ r, recordFrames g = .ok r) :
    dictGet? ((gs.zipIdx 1).foldl (fun pvi (gk : List Frame × Nat) =>
        match recordFrames gk.1 with
        | .ok (fd, _, _) => nextPvi pvi gk.2 (fd.map (·.1))
        | .error _ => pvi) base) p
      = match Spec.latestTxn gs p with
        | some k => some k
        | none => dictGet? base p := by
  rw [pvi_gen gs p hok]
  cases Spec.latestTxn gs p with
  | some k => simp
  | none => rfl

theorem record_init (init : List Frame) (hi : ∀ f ∈ init, f.isCommit = false) :
    ∀ (d : List (Nat × Frame)) (s : Nat),
    init.foldlM recStep (d, false, s) = .ok (init.foldl recIns d, false, s) := by
  induction init with
  | nil => intro d s; rfl
  | cons f init ih =>
    intro d s
    have hf : f.isCommit = false := hi f (by simp)
    rw [List.foldlM_cons, recStep_mk]
    simp only [hf, Bool.false_eq_true, false_and, if_false, Bool.or_false]
    exact ih (fun x hx => hi x (by simp [hx])) _ _

theorem record_accepts (init : List Frame) (last : Frame)
    (hi : ∀ f ∈ init, f.isCommit = false) (hl : last.isCommit = true) :
    ∃ fd, recordFrames (init ++ [last]) = .ok (fd, true, last.hdr.sizeAfterCommit) ∧
      ∀ p, (dictGet? fd p).map Frame.number = Spec.latestFrame (init ++ [last]) p := by
  refine ⟨(init ++ [last]).foldl recIns [], ?_, ?_⟩
  · rw [recordFrames_eq, List.foldlM_append, record_init init hi]
    simp only [bind, Except.bind, List.foldlM_cons, List.foldlM_nil, recStep_mk, hl]
    simp [pure, Except.pure, recIns]
  · intro p
    rw [recDict_get, latestFrame_eq]

theorem frame_offset (ps f : Nat) (hf : 1 ≤ f) :
    Generated.WAL_HEADER_LENGTH + Generated.WAL_FRAME_HEADER_LENGTH * f + ps * (f - 1) = Spec.frameImageOffset ps f := by
  simp only [Generated.WAL_HEADER_LENGTH, Generated.WAL_FRAME_HEADER_LENGTH, Spec.frameImageOffset]
  obtain ⟨k, rfl⟩ : ∃ k, f = k + 1 := ⟨f - 1, by omega⟩
  simp only [Nat.add_sub_cancel, Nat.mul_add, Nat.mul_comm ps k]
  omega
theorem readFrame_index (fh : FileH) (ps i c : Nat) (f : Frame) (h : readFrame fh ps i c = .ok f) :
    f.index = i := by
  unfold readFrame at h
  simp only [bind, Except.bind] at h
  split at h
  · exact nomatch h
  · split at h
    · exact nomatch h
    · split at h
      · exact nomatch h
      · simp only [pure, Except.pure, Except.ok.injEq] at h
        rw [← h]

theorem walScanStep_ok (fh : FileH) (h : WalHeader) (st st' : WalScan) (i : Nat)
    (hs : walScanStep fh h st i = .ok st') :
    ∃ f, readFrame fh h.pageSize i st.crn = .ok f ∧
      ((f.hdr.salt1 ≠ h.salt1 ∧ st'.valid = st.valid ∧
          st'.invalid = st.invalid ++ [{ f with commitRecordNumber := none }] ∧ st'.invIdx ≠ []) ∨
       (f.hdr.salt1 = h.salt1 ∧ f.hdr.salt2 = h.salt2 ∧ st.invIdx = [] ∧ st'.valid = st.valid ++ [f] ∧
          st'.invalid = st.invalid ∧ st'.invIdx = [])) := by
  unfold walScanStep at hs
  simp only [bind, Except.bind] at hs
  split at hs
  · exact nomatch hs
  · rename_i f hf
    refine ⟨f, hf, ?_⟩
    by_cases h1 : f.hdr.salt1 = h.salt1
    · right
      rw [if_neg (by simpa using h1)] at hs
      by_cases h2 : f.hdr.salt2 = h.salt2
      · rw [if_neg (by simpa using h2)] at hs
        by_cases h3 : st.invIdx.isEmpty = true
        · rw [if_neg (by simpa using h3)] at hs
          simp only [pure, Except.pure, Except.ok.injEq] at hs
          have h3' : st.invIdx = [] := by simpa using h3
          subst hs
          exact ⟨h1, h2, h3', rfl, rfl, h3'⟩
        · rw [if_pos h3] at hs; exact nomatch hs
      · rw [if_pos h2] at hs; exact nomatch hs
    · left
      rw [if_pos h1] at hs
      split at hs
      · rename_i k first last hfind
        split at hs
        · exact nomatch hs
        · simp only [pure, Except.pure, Except.ok.injEq] at hs
          subst hs
          refine ⟨h1, rfl, rfl, ?_⟩
          intro hmap
          simp only [List.map_eq_nil_iff] at hmap
          rw [hmap] at hfind
          exact nomatch hfind
      · simp only [pure, Except.pure, Except.ok.injEq] at hs
        subst hs
        exact ⟨h1, rfl, rfl, by simp⟩

theorem foldlM_range_induct {σ : Type} (f : σ → Nat → Py σ) (s0 : σ) (P : Nat → σ → Prop)
    (h0 : P 0 s0) (hstep : ∀ i s s', P i s → f s i = .ok s' → P (i + 1) s') :
    ∀ n s, (List.range n).foldlM f s0 = .ok s → P n s := by
  intro n
  induction n with
  | zero => intro s h; simp only [List.range_zero, List.foldlM_nil, pure, Except.pure, Except.ok.injEq] at h; subst h; exact h0
  | succ n ih =>
    intro s h
    rw [List.range_succ, List.foldlM_append] at h
    simp only [bind, Except.bind] at h
    split at h
    · exact nomatch h
    · rename_i s1 hs1
      simp only [List.foldlM_cons, List.foldlM_nil, bind, Except.bind] at h
      split at h
      · exact nomatch h
      · rename_i s2 hs2
        simp only [pure, Except.pure, Except.ok.injEq] at h
        subst h
        exact hstep n s1 s2 (ih s1 hs1) hs2

def givenSz (gs : Option Nat) (file : Buf) : Nat :=
  match gs with | some 0 => file.size | some n => n | none => file.size

theorem openWal_ok (gs : Option Nat) (file : Buf) (w : Wal) (h : openWal gs file = .ok w) :
    ∃ (hdr : WalHeader) (st : WalScan) (fsize : Nat),
      fsize = givenSz gs file ∧
      parseWalHeader (file.slice 0 Generated.WAL_HEADER_LENGTH) = .ok hdr ∧
      (List.range (Int.tdiv ((fsize : Int) - Generated.WAL_HEADER_LENGTH)
          ((Generated.WAL_FRAME_HEADER_LENGTH : Int) + hdr.pageSize)).toNat).foldlM (walScanStep ⟨fsize, file⟩ hdr) {} = .ok st ∧
      st.valid ≠ [] ∧ lastCommitIndex st.valid = (st.valid.length : Int) - 1 ∧
      w.hdr = hdr ∧ w.frames = st.valid ∧ w.invalid = st.invalid ∧
      w.nFrames = Int.tdiv ((fsize : Int) - Generated.WAL_HEADER_LENGTH)
          ((Generated.WAL_FRAME_HEADER_LENGTH : Int) + hdr.pageSize) := by
  unfold openWal at h
  simp only [bind, Except.bind] at h
  split at h
  · exact nomatch h
  · rename_i hdr hhdr
    split at h
    · exact nomatch h
    · rename_i st hst
      split at h
      · exact nomatch h
      · rename_i x hlast
        split at h
        · exact nomatch h
        · rename_i hlc
          simp only [pure, Except.pure, Except.ok.injEq] at h
          subst h
          refine ⟨hdr, st, _, rfl, hhdr, hst, ?_, ?_, rfl, rfl, rfl, rfl⟩
          · intro hnil; rw [hnil] at hlast; exact nomatch hlast
          · simpa using hlc

structure ScanInv (h : WalHeader) (i : Nat) (st : WalScan) : Prop where
  idx : st.valid.map Frame.index = List.range st.valid.length
  full : st.invIdx = [] → st.valid.length = i
  salts : ∀ f ∈ st.valid, f.hdr.salt1 = h.salt1 ∧ f.hdr.salt2 = h.salt2
  stale : ∀ f ∈ st.invalid, f.hdr.salt1 ≠ h.salt1
  count : st.valid.length + st.invalid.length = i

theorem scanInv_init (h : WalHeader) : ScanInv h 0 {} :=
  ⟨rfl, fun _ => rfl, by simp, by simp, rfl⟩

theorem scanInv_step (fh : FileH) (h : WalHeader) (i : Nat) (st st' : WalScan)
    (hi : ScanInv h i st) (hs : walScanStep fh h st i = .ok st') : ScanInv h (i + 1) st' := by
  obtain ⟨f, hf, hcase⟩ := walScanStep_ok fh h st st' i hs
  have hidx := readFrame_index _ _ _ _ _ hf
  rcases hcase with ⟨h1, hv, hinv, hne⟩ | ⟨h1, h2, hemp, hv, hinv, hemp'⟩
  · refine ⟨by rw [hv]; exact hi.idx, fun he => absurd he hne, by rw [hv]; exact hi.salts, ?_, ?_⟩
    · intro x hx
      rw [hinv, List.mem_append, List.mem_singleton] at hx
      rcases hx with hx | rfl
      · exact hi.stale x hx
      · exact h1
    · rw [hv, hinv, List.length_append, List.length_singleton]; have := hi.count; omega
  · have hlen := hi.full hemp
    refine ⟨?_, fun _ => by rw [hv, List.length_append, List.length_singleton, hlen], ?_, by rw [hinv]; exact hi.stale, ?_⟩
    · rw [hv, List.map_append, List.length_append, List.length_singleton, List.range_succ, hi.idx, hlen]
      simp [hidx]
    · intro x hx
      rw [hv, List.mem_append, List.mem_singleton] at hx
      rcases hx with hx | rfl
      · exact hi.salts x hx
      · exact ⟨h1, h2⟩
    · rw [hv, hinv, List.length_append, List.length_singleton]; have := hi.count; omega

theorem scanInv_of_fold (fh : FileH) (h : WalHeader) (n : Nat) (st : WalScan)
    (hs : (List.range n).foldlM (walScanStep fh h) {} = .ok st) : ScanInv h n st :=
  foldlM_range_induct (walScanStep fh h) {} (ScanInv h) (scanInv_init h)
    (fun i s s' hi hstep => scanInv_step fh h i s s' hi hstep) n st hs

theorem stale_never_served (gs : Option Nat) (file : Buf) (w : Wal) (h : openWal gs file = .ok w) :
    (∀ f ∈ w.frames, f.hdr.salt1 = w.hdr.salt1 ∧ f.hdr.salt2 = w.hdr.salt2) ∧
    (∀ f ∈ w.invalid, f.hdr.salt1 ≠ w.hdr.salt1) ∧
    (w.frames.map Frame.index = List.range w.frames.length) := by
  obtain ⟨hdr, st, fsize, _, _, hfold, _, _, hh, hf, hi, _⟩ := openWal_ok gs file w h
  have inv := scanInv_of_fold _ _ _ _ hfold
  rw [hh, hf, hi]
  exact ⟨inv.salts, inv.stale, inv.idx⟩

theorem lastCommit_concat (init : List Frame) (last : Frame)
    (hidx : (init ++ [last]).map Frame.index = List.range (init ++ [last]).length)
    (hlc : lastCommitIndex (init ++ [last]) = ((init ++ [last]).length : Int) - 1) :
    last.isCommit = true := by
  by_cases hl : last.isCommit = true
  · exact hl
  · exfalso
    rw [List.length_append, List.length_singleton, List.range_succ, List.map_append] at hidx
    have hinit : init.map Frame.index = List.range init.length :=
      (List.append_inj hidx (by simp)).1
    unfold lastCommitIndex at hlc
    rw [List.reverse_append, List.reverse_singleton, List.singleton_append, List.find?_cons] at hlc
    have hl' : last.isCommit = false := by simpa using hl
    rw [hl'] at hlc
    simp only [List.length_append, List.length_singleton] at hlc
    split at hlc
    · rename_i f hfind
      have hmem : f ∈ init := List.mem_reverse.mp (List.mem_of_find?_eq_some hfind)
      have : f.index ∈ init.map Frame.index := List.mem_map_of_mem hmem
      rw [hinit, List.mem_range] at this
      omega
    · omega

theorem accepted_ends_in_commit (gs : Option Nat) (file : Buf) (w : Wal) (h : openWal gs file = .ok w) :
    ∃ init last, w.frames = init ++ [last] ∧ last.isCommit = true ∧ (groupFrames w.frames [] []).2 = [] := by
  obtain ⟨hdr, st, fsize, _, _, hfold, hne, hlc, hh, hf, hi, _⟩ := openWal_ok gs file w h
  have inv := scanInv_of_fold _ _ _ _ hfold
  rw [hf]
  obtain ⟨init, last, hv⟩ : ∃ init last, st.valid = init ++ [last] :=
    ⟨st.valid.dropLast, st.valid.getLast hne, (List.dropLast_concat_getLast hne).symm⟩
  have hidx := inv.idx
  rw [hv] at hidx hlc ⊢
  have hl := lastCommit_concat init last hidx hlc
  exact ⟨init, last, rfl, hl, group_ends_commit init last hl⟩

/-! ### truncation -/

theorem slice_size_trunc (file : Buf) (n : Nat) (hle : n ≤ file.size) : (file.slice 0 n).size = n := by
  simp only [Buf.slice]; omega

theorem slice_slice (file : Buf) (n lo hi : Nat) (hle : n ≤ file.size) (hlo : lo ≤ hi) (hhi : hi ≤ n) :
    (file.slice 0 n).slice lo hi = file.slice lo hi := by
  simp only [Buf.slice]
  congr 1
  · omega
  · funext i
    congr 1
    omega

theorem read_trunc (file : Buf) (n off len : Nat) (hle : n ≤ file.size) (hlen : 0 < len) (h : off + len ≤ n) :
    FileH.read ⟨n, file.slice 0 n⟩ off len = FileH.read ⟨file.size, file⟩ off len := by
  unfold FileH.read
  simp only
  rw [if_neg (by omega), if_neg (by omega), if_neg (by omega), if_neg (by omega),
    slice_slice file n off (off + len) hle (by omega) h]

theorem readFrame_trunc (file : Buf) (n ps i c : Nat) (hle : n ≤ file.size)
    (h : 32 + (i + 1) * (24 + ps) ≤ n) :
    readFrame ⟨n, file.slice 0 n⟩ ps i c = readFrame ⟨file.size, file⟩ ps i c := by
  unfold readFrame
  simp only [Generated.WAL_HEADER_LENGTH, Generated.WAL_FRAME_HEADER_LENGTH]
  rw [read_trunc file n _ _ hle (by omega) (by rw [Nat.add_mul] at h; omega)]

theorem walScanStep_trunc (file : Buf) (n i : Nat) (hdr : WalHeader) (st : WalScan) (hle : n ≤ file.size)
    (h : 32 + (i + 1) * (24 + hdr.pageSize) ≤ n) :
    walScanStep ⟨n, file.slice 0 n⟩ hdr st i = walScanStep ⟨file.size, file⟩ hdr st i := by
  unfold walScanStep
  rw [readFrame_trunc file n _ i _ hle h]

theorem foldlM_congr_mem {σ : Type} (f g : σ → Nat → Py σ) (l : List Nat)
    (h : ∀ i ∈ l, ∀ s, f s i = g s i) : ∀ s, l.foldlM f s = l.foldlM g s := by
  induction l with
  | nil => intro s; rfl
  | cons a l ih =>
    intro s
    rw [List.foldlM_cons, List.foldlM_cons, h a (by simp) s]
    cases g s a with
    | error e => rfl
    | ok s' => exact ih (fun i hi => h i (by simp [hi])) s'

theorem scan_valid_prefix (fh : FileH) (hdr : WalHeader) (l : List Nat) : ∀ (s s' : WalScan),
    l.foldlM (walScanStep fh hdr) s = .ok s' → s.valid <+: s'.valid := by
  induction l with
  | nil => intro s s' h; simp only [List.foldlM_nil, pure, Except.pure, Except.ok.injEq] at h; subst h; exact List.prefix_refl _
  | cons a l ih =>
    intro s s' h
    rw [List.foldlM_cons] at h
    simp only [bind, Except.bind] at h
    split at h
    · exact nomatch h
    · rename_i s1 hs1
      obtain ⟨f, _, hcase⟩ := walScanStep_ok fh hdr s s1 a hs1
      have h2 := ih s1 s' h
      rcases hcase with ⟨_, hv, _⟩ | ⟨_, _, _, hv, _⟩
      · rw [← hv]; exact h2
      · exact List.IsPrefix.trans (by rw [hv]; exact List.prefix_append _ _) h2

theorem nFrames_nat (n ps : Nat) (hn : 32 ≤ n) :
    Int.tdiv ((n : Int) - Generated.WAL_HEADER_LENGTH) ((Generated.WAL_FRAME_HEADER_LENGTH : Int) + ps)
      = ((Spec.wholeFrames ps n : Nat) : Int) := by
  simp only [Generated.WAL_HEADER_LENGTH, Generated.WAL_FRAME_HEADER_LENGTH, Spec.wholeFrames]
  rw [← Int.natCast_sub hn, ← Int.natCast_add, Int.ofNat_tdiv]

theorem wholeFrames_mono (ps n m : Nat) (h : n ≤ m) : Spec.wholeFrames ps n ≤ Spec.wholeFrames ps m := by
  unfold Spec.wholeFrames
  exact Nat.div_le_div_right (by omega)

theorem wholeFrames_bound (ps n i : Nat) (h : i < Spec.wholeFrames ps n) (hn : 32 ≤ n) :
    32 + (i + 1) * (24 + ps) ≤ n := by
  unfold Spec.wholeFrames at h
  have := (Nat.le_div_iff_mul_le (k := 24 + ps) (x := i + 1) (y := n - 32) (by omega)).mp h
  omega

theorem frames_of_truncated (file : Buf) (n : Nat) (hn : 32 ≤ n) (hle : n ≤ file.size) (w : Wal)
    (h : openWal none (file.slice 0 n) = .ok w) :
    w.nFrames = Spec.wholeFrames w.hdr.pageSize n ∧ w.frames.length + w.invalid.length = Spec.wholeFrames w.hdr.pageSize n := by
  obtain ⟨hdr, st, fsize, hfs, _, hfold, _, _, hh, hf, hi, hnf⟩ := openWal_ok none (file.slice 0 n) w h
  have hfs' : fsize = n := by rw [hfs]; exact slice_size_trunc file n hle
  subst hfs'
  rw [nFrames_nat _ _ hn] at hnf hfold
  rw [Int.toNat_natCast] at hfold
  have inv := scanInv_of_fold _ _ _ _ hfold
  rw [hh, hf, hi, hnf]
  exact ⟨rfl, inv.count⟩

theorem truncated_frames_prefix (file : Buf) (n : Nat) (hn : 32 ≤ n) (hle : n ≤ file.size) (w w' : Wal)
    (hfull : openWal none file = .ok w) (hcut : openWal none (file.slice 0 n) = .ok w') :
    w'.frames.map (fun f => (f.index, f.hdr)) <+: w.frames.map (fun f => (f.index, f.hdr)) := by
  obtain ⟨hdr, st, fsize, hfs, hhdr, hfold, _, _, _, hf, _, _⟩ := openWal_ok none file w hfull
  obtain ⟨hdr', st', fsize', hfs', hhdr', hfold', _, _, _, hf', _, _⟩ := openWal_ok none (file.slice 0 n) w' hcut
  have e1 : fsize = file.size := hfs
  have e2 : fsize' = n := by rw [hfs']; exact slice_size_trunc file n hle
  subst e1 e2
  simp only [Generated.WAL_HEADER_LENGTH] at hhdr hhdr'
  rw [slice_slice file fsize' 0 32 hle (by omega) hn, hhdr] at hhdr'
  have e3 : hdr' = hdr := by injection hhdr' with h; exact h.symm
  subst e3
  have hsz : 32 ≤ file.size := by omega
  rw [nFrames_nat _ _ hn, Int.toNat_natCast] at hfold'
  rw [nFrames_nat _ _ hsz, Int.toNat_natCast] at hfold
  -- truncated scan = full-file scan over the shorter range
  rw [foldlM_congr_mem _ (walScanStep ⟨file.size, file⟩ hdr') _ (fun i hi s =>
      walScanStep_trunc file fsize' i hdr' s hle
        (wholeFrames_bound _ _ _ (List.mem_range.mp hi) hn))] at hfold'
  obtain ⟨d, hd⟩ : ∃ d, Spec.wholeFrames hdr'.pageSize file.size = Spec.wholeFrames hdr'.pageSize fsize' + d :=
    ⟨_, (Nat.add_sub_cancel' (wholeFrames_mono _ _ _ hle)).symm⟩
  rw [hd, List.range_add, List.foldlM_append, hfold'] at hfold
  simp only [bind, Except.bind] at hfold
  have hp := scan_valid_prefix _ _ _ _ _ hfold
  rw [hf, hf']
  obtain ⟨t, ht⟩ := hp
  exact ⟨t.map _, by rw [← ht, List.map_append]⟩
end SqliteDissect.Proofs.Wal
