import SqliteDissect.Model.Wal
import SqliteDissect.Spec.WalFmt
namespace SqliteDissect.Proofs.Wal
end SqliteDissect.Proofs.Wal
