/-
C02 — content-level composition: every version of an accepted history serves, page by page,
SQLite's snapshot right after the corresponding commit (`Spec.snapshotPage`).
-/
import SqliteDissect.Spec.WalSnapshot
import SqliteDissect.Proofs.WalTruncate

namespace SqliteDissect.Proofs.WalContent
open SqliteDissect SqliteDissect.Model
open SqliteDissect.Proofs.Wal SqliteDissect.Proofs.WalHistory SqliteDissect.Proofs.WalTruncate

/-! ### `latestTxn` against `latestFrame` -/

theorem lastOf_eq_none_iff (g : List Frame) (p : Nat) :
    lastOf g p = none ↔ g.any (fun f => decide (f.hdr.pageNumber = p)) = false := by
  have h := lastOf_isSome g p
  cases hl : lastOf g p with
  | none => rw [hl] at h; simpa using h.symm
  | some x =>
    rw [hl] at h
    simp only [Option.isSome_some] at h
    constructor
    · intro hx; exact nomatch hx
    · intro hx; rw [hx] at h; exact nomatch h

theorem latestFrame_eq_none_iff (fs : List Frame) (p : Nat) :
    Spec.latestFrame fs p = none ↔ lastOf fs p = none := by
  rw [latestFrame_eq, Option.map_eq_none_iff]

theorem latestTxn_none_iff (gs : List (List Frame)) (p : Nat) :
    Spec.latestTxn gs p = none ↔ Spec.latestFrame gs.flatten p = none := by
  induction gs with
  | nil => simp [Spec.latestTxn, Spec.latestFrame]
  | cons g gs ih =>
    rw [latestFrame_eq_none_iff] at ih ⊢
    rw [List.flatten_cons, lastOf_append]
    unfold Spec.latestTxn
    cases ht : Spec.latestTxn gs p with
    | some k =>
      simp only
      have hne : lastOf gs.flatten p ≠ none := fun hn => by
        rw [ht] at ih; exact nomatch (ih.mpr hn)
      cases hl : lastOf gs.flatten p with
      | none => exact absurd hl hne
      | some x => simp
    | none =>
      simp only
      rw [ih.mp ht, Option.none_or, lastOf_eq_none_iff]
      by_cases ha : (g.any fun f => decide (f.hdr.pageNumber = p)) = true
      · rw [if_pos ha]; simp [ha]
      · rw [if_neg ha]; simpa using ha

theorem latestTxn_some (gs : List (List Frame)) (p : Nat) : ∀ j, Spec.latestTxn gs p = some j →
    1 ≤ j ∧ ∃ g, gs[j - 1]? = some g ∧ ∃ f ∈ g, f.hdr.pageNumber = p := by
  induction gs with
  | nil => intro j h; exact nomatch h
  | cons g gs ih =>
    intro j h
    unfold Spec.latestTxn at h
    cases ht : Spec.latestTxn gs p with
    | some k =>
      rw [ht] at h
      simp only [Option.some.injEq] at h
      subst h
      obtain ⟨hk, g', hg', hf⟩ := ih k ht
      refine ⟨by omega, g', ?_, hf⟩
      obtain ⟨k', rfl⟩ : ∃ k', k = k' + 1 := ⟨k - 1, by omega⟩
      simpa using hg'
    | none =>
      rw [ht] at h
      simp only at h
      split at h
      · rename_i ha
        simp only [Option.some.injEq] at h
        subst h
        refine ⟨Nat.le_refl _, g, rfl, ?_⟩
        simpa using ha
      · exact nomatch h

/-! ### the database file's page→version index -/

theorem dictGet?_base (n p : Nat) :
    dictGet? ((List.range n).map fun i => (i + 1, 0)) p = if 1 ≤ p ∧ p ≤ n then some 0 else none := by
  induction n with
  | zero =>
    simp only [List.range_zero, List.map_nil, dictGet?_nil]
    rw [if_neg (by omega)]
  | succ n ih =>
    rw [List.range_succ, List.map_append, List.map_cons, List.map_nil, dictGet?_append_single, ih]
    by_cases h2 : n + 1 = p
    · subst h2
      rw [if_neg (by omega), if_pos rfl, if_pos (by omega)]
      rfl
    · have hiff : (1 ≤ p ∧ p ≤ n + 1) ↔ (1 ≤ p ∧ p ≤ n) := by omega
      rw [if_neg h2]
      by_cases h1 : 1 ≤ p ∧ p ≤ n
      · rw [if_pos h1, if_pos (hiff.mpr h1)]; rfl
      · rw [if_neg h1, if_neg (fun h => h1 (hiff.mp h))]; rfl

theorem base_pvi (db : Database) (p : Nat) :
    dictGet? (versionOfDatabase db).pvi p = if 1 ≤ p ∧ p ≤ db.dbSize.floor then some 0 else none :=
  dictGet?_base _ p

/-! ### the interface of every commit record in the history -/

/-- every version after the first carries the interface built from its own indices -/
def IfcInv (cfg : Config) (dbv : VersionIf) (w : Wal) (vs : List (Version × VersionIf)) : Prop :=
  ∀ (k : Nat) (ver : Version) (v : VersionIf), vs[k + 1]? = some (ver, v) →
    v = walVersionIf cfg.strict dbv w ver.number ver.dbSize ver.pvi ver.pfi ver.updated

theorem ifcInv_fold (cfg : Config) (dbv : VersionIf) (w : Wal) (gs : List (List Frame)) :
    ∀ (st st' : HSt), IfcInv cfg dbv w st.1 → gs.foldlM (hStep cfg dbv w) st = .ok st' →
      IfcInv cfg dbv w st'.1 := by
  induction gs with
  | nil =>
    intro st st' hi h
    simp only [List.foldlM_nil, pure, Except.pure, Except.ok.injEq] at h
    subst h; exact hi
  | cons g gs ih =>
    intro st st' hi h
    rw [List.foldlM_cons] at h
    obtain ⟨st1, h1, h2⟩ := bind_ok _ _ _ h
    refine ih st1 st' ?_ h2
    obtain ⟨pv, pvi, cv, cvi, hl, hm, hst⟩ := hStep_ok cfg dbv w st st1 g h1
    obtain ⟨fd, csize, -, hnum, hsz, hup, -, -, hv⟩ := commit_record_indices _ _ _ _ _ _ _ _ _ _ _ _ hm
    intro k ver v hk
    rw [hst] at hk
    by_cases hlt : k + 1 < st.1.length
    · rw [List.getElem?_append_left hlt] at hk
      exact hi k ver v hk
    · have hlen := (List.getElem?_eq_some_iff.mp hk).1
      simp only [List.length_append, List.length_singleton] at hlen
      have hk' : k + 1 = st.1.length := by omega
      rw [hk', List.getElem?_append_right (Nat.le_refl _)] at hk
      simp only [Nat.sub_self, List.getElem?_cons_zero, Option.some.injEq, Prod.mk.injEq] at hk
      obtain ⟨rfl, rfl⟩ := hk
      rw [hnum, hsz, hup]
      exact hv

/-- the shape of an accepted history: the database file first, then one commit record per
transaction, each with the interface built from its own indices -/
theorem history_interfaces (cfg : Config) (db : Database) (dbv : VersionIf) (w : Wal)
    (vs : List (Version × VersionIf)) (h : versionHistory cfg db dbv (some w) = .ok vs) :
    vs[0]? = some (versionOfDatabase db, dbv) ∧ IfcInv cfg dbv w vs := by
  rw [versionHistory_eq] at h
  obtain ⟨st', hf, h⟩ := bind_ok _ _ _ h
  split at h
  · exact nomatch h
  simp only [pure, Except.pure, Except.ok.injEq] at h
  subst h
  constructor
  · obtain ⟨⟨t, ht⟩, -⟩ := fold_versions cfg dbv w _ _ _ hf
    rw [← ht]; rfl
  · exact ifcInv_fold cfg dbv w _ _ st' (by intro k ver v hk; simp at hk) hf

/-! ### byte ranges of a commit record's pages -/

theorem wal_bytes_source (strict : Bool) (dbv : VersionIf) (wal : Wal) (number dbSize : Nat)
    (pvi pfi : List (Nat × Nat)) (own : List Nat) (p off len : Nat)
    (hlen : 0 < len) (hoff : off + len ≤ wal.hdr.pageSize) (hp : 1 ≤ p ∧ p ≤ dbSize)
    (hf : ∀ q f, dictGet? pfi q = some f → 1 ≤ f) :
    (walVersionIf strict dbv wal number dbSize pvi pfi own).getData p off (some len) =
      match dictGet? pvi p with
      | none => .error .keyError
      | some 0 => dbv.getData p off (some len)
      | some (k + 1) =>
        if k + 1 = number ∧ ¬ own.contains p then .error .parseError
        else match dictGet? pfi p with
          | none => .error .keyError
          | some f => wal.fh.read (Spec.frameImageOffset wal.hdr.pageSize f + off) len := by
  unfold walVersionIf
  simp only
  obtain ⟨l, rfl⟩ : ∃ l, len = l + 1 := ⟨len - 1, by omega⟩
  cases hpv : dictGet? pvi p with
  | none => rfl
  | some pv =>
    cases pv with
    | zero => simp
    | succ k =>
      simp only [Nat.add_one_ne_zero, if_false]
      rw [if_neg (by omega), if_neg (by omega), if_neg (by omega)]
      by_cases hc : k + 1 = number ∧ ¬ own.contains p = true
      · rw [if_pos hc, if_pos hc]; rfl
      · rw [if_neg hc, if_neg hc]
        cases hpf : dictGet? pfi p with
        | none => rfl
        | some f =>
          simp only [bind, Except.bind]
          rw [Wal.frame_offset _ _ (hf p f hpf)]

/-- a sub-range of a page image that could be read whole -/
theorem read_sub (f : FileH) (base ps off len : Nat) (page : Buf)
    (h : f.read base ps = .ok page) (hlen : 0 < len) (hoff : off + len ≤ ps) :
    f.read (base + off) len = .ok (page.slice off (off + len)) := by
  unfold FileH.read at h ⊢
  split at h
  · exact nomatch h
  split at h
  · exact nomatch h
  simp only [Except.ok.injEq] at h
  subst h
  rw [if_neg (by omega), if_neg (by omega)]
  simp only [Buf.slice, Except.ok.injEq, Buf.mk.injEq]
  refine ⟨by omega, ?_⟩
  funext i
  congr 1
  omega

/-! ### where version `k+1` finds page `p` -/

/-- the two ways version `k+1` of an accepted history can find a page `p` inside its size that the
database file or the log covers: no frame of the first `k+1` transactions carries it and the index
sends it to the database file; or the latest such frame is `f ≥ 1`, and both indices lead there -/
theorem version_lookup (cfg : Config) (db : Database) (dbv : VersionIf) (w : Wal)
    (vs : List (Version × VersionIf)) (h : versionHistory cfg db dbv (some w) = .ok vs)
    (k : Nat) (ver : Version) (v : VersionIf) (hk : vs[k + 1]? = some (ver, v)) (p : Nat) :
    v = walVersionIf cfg.strict dbv w ver.number ver.dbSize ver.pvi ver.pfi ver.updated ∧
    (∀ q f, dictGet? ver.pfi q = some f → 1 ≤ f) ∧
    ((Spec.latestFrame (((groupFrames w.frames [] []).1.take (k + 1)).flatten) p = none ∧
        dictGet? ver.pvi p = if 1 ≤ p ∧ p ≤ db.dbSize.floor then some 0 else none) ∨
     (∃ f j, Spec.latestFrame (((groupFrames w.frames [] []).1.take (k + 1)).flatten) p = some f ∧
        dictGet? ver.pvi p = some (j + 1) ∧ dictGet? ver.pfi p = some f ∧
        ¬ (j + 1 = ver.number ∧ ¬ ver.updated.contains p = true))) := by
  obtain ⟨-, hifc⟩ := history_interfaces cfg db dbv w vs h
  obtain ⟨hnum, hidx⟩ := (history_indices cfg db dbv w vs h).2 (k + 1) ver v hk
  obtain ⟨-, hcom⟩ := history_versions_committed cfg db dbv w vs h
  obtain ⟨init, last, fd, hg, -, -, -, -, -, -, -, -, hupd, hpfi1⟩ := hcom k ver v hk
  refine ⟨hifc k ver v hk, ?_, ?_⟩
  · intro q f hq
    obtain ⟨fr, -, -, rfl⟩ := hpfi1 q f hq
    omega
  · obtain ⟨hpf, hpv⟩ := hidx p
    cases ht : Spec.latestTxn ((groupFrames w.frames [] []).1.take (k + 1)) p with
    | none =>
      left
      rw [ht] at hpv
      simp only at hpv
      exact ⟨(latestTxn_none_iff _ p).mp ht, by rw [hpv, base_pvi]⟩
    | some j =>
      right
      rw [ht] at hpv
      simp only at hpv
      obtain ⟨hj, g, hgj, fr, hfr, hfrp⟩ := latestTxn_some _ p j ht
      obtain ⟨j', rfl⟩ : ∃ j', j = j' + 1 := ⟨j - 1, by omega⟩
      have hne : Spec.latestFrame (((groupFrames w.frames [] []).1.take (k + 1)).flatten) p ≠ none := by
        intro hn
        rw [(latestTxn_none_iff _ p).mpr hn] at ht
        exact nomatch ht
      cases hl : Spec.latestFrame (((groupFrames w.frames [] []).1.take (k + 1)).flatten) p with
      | none => exact absurd hl hne
      | some f =>
        refine ⟨f, j', rfl, hpv, by rw [hpf, hl], ?_⟩
        rintro ⟨hjn, hnot⟩
        apply hnot
        rw [hnum] at hjn
        have hjk : j' = k := by omega
        subst hjk
        simp only [Nat.add_sub_cancel] at hgj
        rw [List.getElem?_take_of_lt (by omega), hg] at hgj
        injection hgj with hgj
        subst hgj
        rw [List.contains_eq_mem, decide_eq_true_eq]
        exact (hupd p).mpr ⟨fr, hfr, hfrp⟩

/-! ### the content theorems -/

theorem snapshot_zero (dbPage : Nat → Py Buf) (fh : FileH) (ps : Nat) (gs : List (List Frame)) (p : Nat) :
    Spec.snapshotPage dbPage fh ps gs 0 p = dbPage p := by
  simp [Spec.snapshotPage, Spec.latestFrame]

/-- version `k` serves page `p` exactly as SQLite's snapshot after the `k`-th commit defines it -/
theorem version_serves_snapshot (cfg : Config) (db : Database) (dbv : VersionIf) (w : Wal)
    (vs : List (Version × VersionIf)) (h : versionHistory cfg db dbv (some w) = .ok vs)
    (hps : 0 < w.hdr.pageSize)
    (k : Nat) (ver : Version) (v : VersionIf) (hk : vs[k]? = some (ver, v))
    (p : Nat) (hp : 1 ≤ p ∧ p ≤ ver.dbSize)
    (hcov : p ≤ db.dbSize.floor ∨
      Spec.latestFrame (((groupFrames w.frames [] []).1.take k).flatten) p ≠ none) :
    v.getData p 0 none =
      Spec.snapshotPage (fun q => dbv.getData q 0 none) w.fh w.hdr.pageSize
        (groupFrames w.frames [] []).1 k p := by
  cases k with
  | zero =>
    obtain ⟨h0, -⟩ := history_interfaces cfg db dbv w vs h
    rw [h0] at hk
    simp only [Option.some.injEq, Prod.mk.injEq] at hk
    rw [snapshot_zero, ← hk.2]
  | succ k =>
    obtain ⟨hv, hf1, hcase⟩ := version_lookup cfg db dbv w vs h k ver v hk p
    rw [hv, wal_page_source _ _ _ _ _ _ _ _ p hps hp hf1]
    unfold Spec.snapshotPage
    rcases hcase with ⟨hl, hpv⟩ | ⟨f, j, hl, hpv, hpf, hown⟩
    · rw [hl, hpv]
      rcases hcov with hc | hc
      · rw [if_pos ⟨hp.1, hc⟩]
      · exact absurd hl hc
    · rw [hl, hpv]
      simp only
      rw [if_neg hown, hpf]

/-- a page inside the committed size that neither the database file nor any frame so far covers is
refused (`KeyError`), never invented -/
theorem version_page_uncovered (cfg : Config) (db : Database) (dbv : VersionIf) (w : Wal)
    (vs : List (Version × VersionIf)) (h : versionHistory cfg db dbv (some w) = .ok vs)
    (k : Nat) (ver : Version) (v : VersionIf) (hk : vs[k + 1]? = some (ver, v))
    (p : Nat) (hdb : db.dbSize.floor < p)
    (hnone : Spec.latestFrame (((groupFrames w.frames [] []).1.take (k + 1)).flatten) p = none)
    (off : Nat) (n : Option Nat) :
    v.getData p off n = .error .keyError := by
  obtain ⟨hv, -, hcase⟩ := version_lookup cfg db dbv w vs h k ver v hk p
  rcases hcase with ⟨-, hpv⟩ | ⟨f, j, hl, -⟩
  · rw [if_neg (by omega)] at hpv
    rw [hv]
    simp only [walVersionIf, hpv]
  · rw [hnone] at hl; exact nomatch hl

/-- byte ranges inside a page: served from the same place as the whole page -/
theorem partial_reads_agree (cfg : Config) (db : Database) (dbv : VersionIf) (w : Wal)
    (vs : List (Version × VersionIf)) (h : versionHistory cfg db dbv (some w) = .ok vs)
    (k : Nat) (ver : Version) (v : VersionIf) (hk : vs[k]? = some (ver, v))
    (p : Nat) (hp : 1 ≤ p ∧ p ≤ ver.dbSize)
    (hcov : p ≤ db.dbSize.floor ∨
      Spec.latestFrame (((groupFrames w.frames [] []).1.take k).flatten) p ≠ none)
    (off len : Nat) (hlen : 0 < len) (hoff : off + len ≤ w.hdr.pageSize) :
    v.getData p off (some len) =
      Spec.snapshotBytes (fun q o l => dbv.getData q o (some l)) w.fh w.hdr.pageSize
        (groupFrames w.frames [] []).1 k p off len := by
  cases k with
  | zero =>
    obtain ⟨h0, -⟩ := history_interfaces cfg db dbv w vs h
    rw [h0] at hk
    simp only [Option.some.injEq, Prod.mk.injEq] at hk
    rw [← hk.2]
    simp [Spec.snapshotBytes, Spec.latestFrame]
  | succ k =>
    obtain ⟨hv, hf1, hcase⟩ := version_lookup cfg db dbv w vs h k ver v hk p
    rw [hv, wal_bytes_source _ _ _ _ _ _ _ _ p off len hlen hoff hp hf1]
    unfold Spec.snapshotBytes
    rcases hcase with ⟨hl, hpv⟩ | ⟨f, j, hl, hpv, hpf, hown⟩
    · rw [hl, hpv]
      rcases hcov with hc | hc
      · rw [if_pos ⟨hp.1, hc⟩]
      · exact absurd hl hc
    · rw [hl, hpv]
      simp only
      rw [if_neg hown, hpf]

/-- for a page taken from the log, a byte range is the corresponding slice of the snapshot page -/
theorem partial_read_is_slice (cfg : Config) (db : Database) (dbv : VersionIf) (w : Wal)
    (vs : List (Version × VersionIf)) (h : versionHistory cfg db dbv (some w) = .ok vs)
    (k : Nat) (ver : Version) (v : VersionIf) (hk : vs[k]? = some (ver, v))
    (p : Nat) (hp : 1 ≤ p ∧ p ≤ ver.dbSize)
    (hwal : Spec.latestFrame (((groupFrames w.frames [] []).1.take k).flatten) p ≠ none)
    (page : Buf)
    (hpage : Spec.snapshotPage (fun q => dbv.getData q 0 none) w.fh w.hdr.pageSize
        (groupFrames w.frames [] []).1 k p = .ok page)
    (off len : Nat) (hlen : 0 < len) (hoff : off + len ≤ w.hdr.pageSize) :
    v.getData p off (some len) = .ok (page.slice off (off + len)) := by
  rw [partial_reads_agree cfg db dbv w vs h k ver v hk p hp (Or.inr hwal) off len hlen hoff]
  unfold Spec.snapshotBytes
  unfold Spec.snapshotPage at hpage
  cases hl : Spec.latestFrame (((groupFrames w.frames [] []).1.take k).flatten) p with
  | none => exact absurd hl hwal
  | some f =>
    rw [hl] at hpage
    exact read_sub w.fh _ _ off len page hpage hlen hoff

/-! ### a page written twice in one transaction -/

/-- among the frames up to and including a transaction, the latest frame for `p` is the last
frame of that transaction that carries `p` -/
theorem latestFrame_last_wins (pre a c : List Frame) (f2 : Frame) (p : Nat)
    (h2 : f2.hdr.pageNumber = p) (hc : ∀ f ∈ c, f.hdr.pageNumber ≠ p) :
    Spec.latestFrame (pre ++ (a ++ f2 :: c)) p = some f2.number := by
  have hcn : lastOf c p = none := by
    rw [lastOf_eq_none_iff, List.any_eq_false]
    intro f hf
    simpa using hc f hf
  rw [latestFrame_eq, lastOf_append, lastOf_append, lastOf_cons, hcn, if_pos h2]
  rfl

theorem take_succ_flatten (gs : List (List Frame)) (k : Nat) (g : List Frame) (hg : gs[k]? = some g) :
    (gs.take (k + 1)).flatten = (gs.take k).flatten ++ g := by
  rw [List.take_add_one, hg, List.flatten_append]
  simp

/-- transaction `k+1` wrote page `p` in frame `f1` and later again in `f2` (and not after `f2`):
version `k+1` serves the image carried by `f2` -/
theorem double_write_last_wins (cfg : Config) (db : Database) (dbv : VersionIf) (w : Wal)
    (vs : List (Version × VersionIf)) (h : versionHistory cfg db dbv (some w) = .ok vs)
    (hps : 0 < w.hdr.pageSize)
    (k : Nat) (ver : Version) (v : VersionIf) (hk : vs[k + 1]? = some (ver, v))
    (a b c : List Frame) (f1 f2 : Frame)
    (hg : (groupFrames w.frames [] []).1[k]? = some (a ++ f1 :: b ++ f2 :: c))
    (p : Nat) (_h1 : f1.hdr.pageNumber = p) (h2 : f2.hdr.pageNumber = p)
    (hc : ∀ f ∈ c, f.hdr.pageNumber ≠ p) (hp : 1 ≤ p ∧ p ≤ ver.dbSize) :
    v.getData p 0 none = w.fh.read (Spec.frameImageOffset w.hdr.pageSize f2.number) w.hdr.pageSize := by
  have hl : Spec.latestFrame (((groupFrames w.frames [] []).1.take (k + 1)).flatten) p = some f2.number := by
    rw [take_succ_flatten _ k _ hg]
    have : a ++ f1 :: b ++ f2 :: c = (a ++ f1 :: b) ++ f2 :: c := by simp
    rw [this]
    exact latestFrame_last_wins _ _ c f2 p h2 hc
  rw [version_serves_snapshot cfg db dbv w vs h hps (k + 1) ver v hk p hp (Or.inr (by rw [hl]; simp))]
  unfold Spec.snapshotPage
  rw [hl]

/-! ### what lies after the valid run never contributes -/

theorem invalid_after_valid (gsz : Option Nat) (file : Buf) (w : Wal) (h : openWal gsz file = .ok w) :
    ∀ f ∈ w.invalid, w.frames.length ≤ f.index := by
  obtain ⟨hdr, st, fsize, _, _, hfold, _, _, _, hf, hi, _⟩ := openWal_ok gsz file w h
  rw [hf, hi]
  have key := foldlM_range_induct (walScanStep ⟨fsize, file⟩ hdr) {}
    (fun i st => ScanInv hdr i st ∧ (st.invIdx = [] → st.invalid = []) ∧
      ∀ f ∈ st.invalid, st.valid.length ≤ f.index)
    ⟨scanInv_init hdr, fun _ => rfl, by intro f hf; exact nomatch hf⟩
    (by
      intro i s s' ⟨hinv, hemp, hafter⟩ hs
      refine ⟨scanInv_step _ hdr i s s' hinv hs, ?_⟩
      obtain ⟨f, hrf, hcase⟩ := walScanStep_ok _ hdr s s' i hs
      have hidx := readFrame_index _ _ _ _ _ hrf
      rcases hcase with ⟨-, hv, hin, hne⟩ | ⟨-, -, he, hv, hin, -⟩
      · refine ⟨fun he => absurd he hne, ?_⟩
        intro x hx
        rw [hv]
        rw [hin, List.mem_append, List.mem_singleton] at hx
        rcases hx with hx | rfl
        · exact hafter x hx
        · have := hinv.count
          simp only
          omega
      · rw [hin, hemp he]
        exact ⟨fun _ => rfl, by intro x hx; exact nomatch hx⟩)
    _ st hfold
  exact key.2.2

/-- every frame the snapshot takes a page from is one of the valid frames (header salts), and its
page image lies inside the valid run of the file -/
theorem snapshot_reads_valid_run (gsz : Option Nat) (file : Buf) (w : Wal) (h : openWal gsz file = .ok w)
    (k p f : Nat)
    (hl : Spec.latestFrame (((groupFrames w.frames [] []).1.take k).flatten) p = some f) :
    ∃ fr ∈ w.frames, fr.hdr.pageNumber = p ∧ f = fr.index + 1 ∧
      fr.hdr.salt1 = w.hdr.salt1 ∧ fr.hdr.salt2 = w.hdr.salt2 ∧
      Spec.frameImageOffset w.hdr.pageSize f + w.hdr.pageSize ≤
        32 + w.frames.length * (24 + w.hdr.pageSize) := by
  obtain ⟨hsalt, -, hidx⟩ := stale_never_served gsz file w h
  obtain ⟨fr, hfr, hp, hf⟩ := pfi_values_are_frame_numbers _ p f hl
  obtain ⟨hflat, -, -⟩ := group_spec w.frames _ _
    (rfl : groupFrames w.frames [] [] = ((groupFrames w.frames [] []).1, (groupFrames w.frames [] []).2))
  have hmem : fr ∈ w.frames := by
    rw [← hflat]
    apply List.mem_append_left
    obtain ⟨g, hg, hfg⟩ := List.mem_flatten.mp hfr
    exact List.mem_flatten.mpr ⟨g, List.mem_of_mem_take hg, hfg⟩
  have hlt := frame_index_lt w.frames hidx fr hmem
  refine ⟨fr, hmem, hp, hf, (hsalt fr hmem).1, (hsalt fr hmem).2, ?_⟩
  subst hf
  have hmul : (fr.index + 1) * (24 + w.hdr.pageSize) ≤ w.frames.length * (24 + w.hdr.pageSize) :=
    Nat.mul_le_mul_right _ hlt
  simp only [Spec.frameImageOffset, Nat.add_sub_cancel]
  rw [Nat.add_mul] at hmul
  omega

/-- the history never consults what the reader recorded about the frames after the valid run -/
theorem history_ignores_invalid (cfg : Config) (db : Database) (dbv : VersionIf) (w : Wal)
    (inv : List Frame) (idx : List (Nat × Nat × Nat)) (n lc : Int) :
    versionHistory cfg db dbv
        (some { w with invalid := inv, invalidIndices := idx, nFrames := n, lastCommitIndex := lc }) =
      versionHistory cfg db dbv (some w) := by
  rw [versionHistory_eq, versionHistory_eq]
  have : hStep cfg dbv { w with invalid := inv, invalidIndices := idx, nFrames := n, lastCommitIndex := lc }
      = hStep cfg dbv w := by
    funext st g
    obtain ⟨vs, lh, ls, lrt, enc⟩ := st
    unfold hStep
    simp only
    cases hl : vs.getLast? with
    | none => rfl
    | some x =>
      obtain ⟨pv, pvi⟩ := x
      simp only
      rw [makeCommitRecord_congr cfg dbv w
        { w with invalid := inv, invalidIndices := idx, nFrames := n, lastCommitIndex := lc }
        vs.length g pv lh ls lrt enc rfl (fun _ _ _ _ => rfl)]
  rw [this]

end SqliteDissect.Proofs.WalContent
