import SqliteDissect.Proofs.Record
import SqliteDissect.Proofs.CellArith
import SqliteDissect.Spec.CellWrite
import SqliteDissect.Proofs.CellChain
namespace SqliteDissect.Proofs.CellParse
open SqliteDissect SqliteDissect.Model
open SqliteDissect.Proofs.Codec SqliteDissect.Proofs.Record SqliteDissect.Proofs.CellArith
open SqliteDissect.Proofs.CellChain

/-- what the model must report for a payload-bearing cell whose bytes are `cell`, starting at
`start`, holding the record `cols` with `b` local bytes and the overflow pages `pgs` -/
def Good (c : Cell) (kind : CellKind) (index start : Nat) (cell : List Nat) (lc : Option Nat)
    (rowid : Option Int) (cols : List Spec.Col) (b : Nat) (pgs : List Nat) : Prop :=
  c.kind = kind ∧ c.index = index ∧ c.start = start ∧ c.leftChild = lc ∧ c.rowid = rowid ∧
  c.payloadSize = some ((Spec.encodeRecord cols).length : Int) ∧
  c.bytesOnFirst = some (b : Int) ∧
  c.hasOverflow = decide (b < (Spec.encodeRecord cols).length) ∧
  c.overflowPages.map (·.number) = pgs ∧
  c.end_ = ((start + cell.length : Nat) : Int) ∧
  c.byteSize = (cell.length : Int) + (((Spec.encodeRecord cols).length - b : Nat) : Int) ∧
  c.record = some ⟨(Spec.hdrSize (Spec.typeBytes cols).length : Int),
      Spec.varintLen (Spec.hdrSize (Spec.typeBytes cols).length),
      cols.map expectedCol, Spec.encodeRecord cols⟩ ∧
  c.digest = cell ++ (Spec.encodeRecord cols).drop b

theorem hdr_varint_le (n : Nat) (hn : n + 3 < 2 ^ 21) : Spec.varintLen (Spec.hdrSize n) ≤ 3 := by
  unfold Spec.hdrSize Spec.varintLen
  simp only [Nat.reducePow] at hn ⊢
  repeat' split
  all_goals omega

theorem minLocal_ge (u : Nat) (hu : 512 ≤ u) : 39 ≤ Spec.minLocal u := by
  unfold Spec.minLocal; omega

theorem digest_slice (pre cell post : List Nat) (hi : Int)
    (h : hi = ((pre.length + cell.length : Nat) : Int)) :
    (pySlice (Buf.ofList (pre ++ cell ++ post)) (pre.length : Int) hi).toList = cell := by
  subst h
  rw [pySlice_toList _ _ _ (by omega) (by rw [ofList_size]; simp only [List.length_append]; omega),
    ofList_toList, List.append_assoc, List.drop_left, Nat.add_sub_cancel_left, List.take_left]

/-- overflowing payload -/
theorem payload_cell_ov (v : VersionIf) (hu : 512 ≤ v.pageSize) (kind : CellKind) (maxLoc : Nat)
    (hlim : (if kind = .tableLeaf then (v.pageSize : Int) - 35 else payloadConst v.pageSize 64) = (maxLoc : Int))
    (hm : Spec.minLocal v.pageSize ≤ maxLoc)
    (cols : List Spec.Col) (hv : ∀ c ∈ cols, Spec.ValidCol c)
    (hn : (Spec.typeBytes cols).length + 3 < 2 ^ 21)
    (pgs : List Nat) (hnd : pgs.Nodup) (hpg : ∀ p ∈ pgs, p < 2 ^ 32)
    (pre hdr post : List Nat) (index : Nat) (lc : Option Nat) (rowid : Option Int)
    (hov : maxLoc < (Spec.encodeRecord cols).length)
    (hchain : Spec.ChainLaidOut v pgs ((Spec.encodeRecord cols).drop
        (Spec.localSize v.pageSize maxLoc (Spec.encodeRecord cols).length))) :
    ∃ c, parsePayloadCell v kind
        (Buf.ofList (pre ++ (hdr ++ (Spec.encodeRecord cols).take
            (Spec.localSize v.pageSize maxLoc (Spec.encodeRecord cols).length) ++ Spec.be32 (pgs.headD 0)) ++ post))
        index pre.length lc rowid ((Spec.encodeRecord cols).length : Int) hdr.length = .ok c ∧
      Good c kind index pre.length (hdr ++ (Spec.encodeRecord cols).take
            (Spec.localSize v.pageSize maxLoc (Spec.encodeRecord cols).length) ++ Spec.be32 (pgs.headD 0))
        lc rowid cols (Spec.localSize v.pageSize maxLoc (Spec.encodeRecord cols).length) pgs := by
  have hu4 : 4 < v.pageSize := by omega
  obtain ⟨hb1, hb2, hb3⟩ := local_bounds v.pageSize hu maxLoc hm _ hov
  have hml := minLocal_ge v.pageSize hu
  have hhv := hdr_varint_le _ hn
  have hrr := record_roundtrip cols hv hn (pre ++ hdr) (Spec.be32 (pgs.headD 0) ++ post)
    (Spec.localSize v.pageSize maxLoc (Spec.encodeRecord cols).length) (by omega) (by omega)
  unfold Good
  generalize hE : Spec.encodeRecord cols = enc at *
  generalize hB : Spec.localSize v.pageSize maxLoc enc.length = b at *
  have hrl : (enc.drop b).length = enc.length - b := List.length_drop
  have htl : (enc.take b).length = b := by rw [List.length_take]; omega
  -- the chain
  obtain ⟨p, more, rfl⟩ : ∃ p more, pgs = p :: more := by
    cases pgs with
    | nil =>
      have : enc.drop b = [] := hchain
      rw [this] at hrl; simp only [List.length_nil] at hrl; omega
    | cons p more => exact ⟨p, more, rfl⟩
  obtain ⟨ch, hch, hnum, hlens⟩ := chain_laid v hu4 p more _ hchain hpg hnd
  have hlen := laid_length v hu4 _ _ hchain
  have hchl : ch.length = (p :: more).length := by rw [← hnum, List.length_map]
  rw [hrl] at hch hlen
  have hdl : (dictOfChain ch).length = Spec.overflowPages v.pageSize (enc.length - b) := by
    rw [dictOfChain_length ch (by rw [hnum]; exact hnd), hchl, hlen]
  obtain ⟨_, _, hshape⟩ := chain_shape v hu4 p _ ch hch (by rw [hchl, hlen])
  obtain ⟨lastPg, hlastPg⟩ : ∃ pg, ch.getLast? = some pg := by
    cases h : ch.getLast? with
    | none => rw [List.getLast?_eq_none_iff] at h; subst h; simp at hchl
    | some pg => exact ⟨pg, rfl⟩
  have hlast := (hshape lastPg hlastPg).1
  -- the overflow buffer
  obtain ⟨arr, hfold, harr⟩ := fold_laid v hu4
    (fun acc pg => do
      let c ← v.getData pg.number Generated.OVERFLOW_HEADER_LENGTH (some pg.contentLength)
      pure (acc ++ c.toArray)) (fun _ _ => rfl) (p :: more) _ ch #[] hchain hnum hlens
  simp only [List.nil_append] at harr
  have hbuf : Buf.ofArray arr = Buf.ofList (enc.drop b) := by rw [ofArray_eq_ofList, harr]
  have hbsz : (Buf.ofArray arr).size = enc.length - b := by rw [hbuf, ofList_size, hrl]
  have e : (enc.length : Int) - (b : Int) = ((enc.length - b : Nat) : Int) := by omega
  rw [← e] at hch
  -- the pointer to the first overflow page
  have hun : unpackAt (Buf.ofList (pre ++ (hdr ++ enc.take b ++ Spec.be32 p) ++ post))
      ((pre.length : Int) + (hdr.length : Int) + (b : Int)) 4 = .ok p := by
    have := unpackAt_be32 (Buf.ofList (pre ++ (hdr ++ enc.take b ++ Spec.be32 p) ++ post))
      (pre ++ hdr ++ enc.take b) post p (hpg p (List.mem_cons_self ..))
      (by rw [ofList_toList]; simp only [List.append_assoc])
    simpa only [List.length_append, htl, Int.natCast_add] using this
  have hexp : calcExpectedOverflow ((enc.length : Int) - (b : Int)) v.pageSize
      = some (Spec.overflowPages v.pageSize (enc.length - b),
          (Spec.lastOverflowFill v.pageSize (enc.length - b) : Int)) := by
    rw [e]; exact overflow_closed_form _ hu4 _ (by omega)
  have hpage : pre ++ (hdr ++ enc.take b ++ Spec.be32 p) ++ post
      = pre ++ hdr ++ enc.take b ++ (Spec.be32 p ++ post) := by simp only [List.append_assoc]
  simp only [List.headD_cons] at hrr ⊢
  rw [← hpage, List.length_append, Int.natCast_add, ← hbuf] at hrr
  unfold parsePayloadCell
  simp only [hlim, localPayload_eq v.pageSize hu maxLoc hm enc.length, hB, hov, decide_true, if_true]
  have hg4 : Generated.FIRST_OVERFLOW_PAGE_NUMBER_LENGTH = 4 := rfl
  have cbm : ¬ ((b : Int) < (Spec.minLocal v.pageSize : Int)) := by omega
  have hbsz' : ((Buf.ofArray arr).size : Int) = (enc.length : Int) - (b : Int) := by rw [hbsz]; omega
  simp only [bind, Except.bind, pure, Except.pure] at hfold
  simp only [hg4, hun, bind, Except.bind, cbm, if_false, pure, Except.pure, hexp, hch, hdl, hlastPg,
    hlast, ne_eq, not_true_eq_false, hfold, hbsz', hrr]
  refine ⟨_, rfl, rfl, rfl, rfl, rfl, rfl, rfl, rfl, ?_, hnum, ?_, ?_, rfl, ?_⟩
  · simp only [hb3, decide_true]
  · simp only [List.length_append, htl, be32_length]; omega
  · simp only [List.length_append, htl, be32_length]; omega
  · show _ ++ _ = _
    rw [digest_slice pre _ post _ (by simp only [List.length_append, htl, be32_length]; omega),
      hbuf, ofList_toList]

/-- payload that fits on the page -/
theorem payload_cell_local (v : VersionIf) (hu : 512 ≤ v.pageSize) (kind : CellKind) (maxLoc : Nat)
    (hlim : (if kind = .tableLeaf then (v.pageSize : Int) - 35 else payloadConst v.pageSize 64) = (maxLoc : Int))
    (hm : Spec.minLocal v.pageSize ≤ maxLoc)
    (cols : List Spec.Col) (hv : ∀ c ∈ cols, Spec.ValidCol c)
    (hn : (Spec.typeBytes cols).length + 3 < 2 ^ 21)
    (pre hdr post : List Nat) (index : Nat) (lc : Option Nat) (rowid : Option Int)
    (hov : ¬ maxLoc < (Spec.encodeRecord cols).length) :
    ∃ c, parsePayloadCell v kind
        (Buf.ofList (pre ++ (hdr ++ (Spec.encodeRecord cols).take
            (Spec.localSize v.pageSize maxLoc (Spec.encodeRecord cols).length) ++ []) ++ post))
        index pre.length lc rowid ((Spec.encodeRecord cols).length : Int) hdr.length = .ok c ∧
      Good c kind index pre.length (hdr ++ (Spec.encodeRecord cols).take
            (Spec.localSize v.pageSize maxLoc (Spec.encodeRecord cols).length) ++ [])
        lc rowid cols (Spec.localSize v.pageSize maxLoc (Spec.encodeRecord cols).length) [] := by
  have hB : Spec.localSize v.pageSize maxLoc (Spec.encodeRecord cols).length
      = (Spec.encodeRecord cols).length := by
    unfold Spec.localSize; rw [if_pos (by omega)]
  have hvl : Spec.varintLen (Spec.hdrSize (Spec.typeBytes cols).length) ≤ (Spec.encodeRecord cols).length := by
    rw [encodeRecord_length]; omega
  have hrr := record_roundtrip cols hv hn (pre ++ hdr) post (Spec.encodeRecord cols).length hvl (Nat.le_refl _)
  unfold Good
  rw [hB]
  generalize hE : Spec.encodeRecord cols = enc at *
  have hpage : pre ++ (hdr ++ enc.take enc.length ++ []) ++ post
      = pre ++ hdr ++ enc.take enc.length ++ post := by simp only [List.append_assoc, List.append_nil]
  rw [← hpage, List.length_append, Int.natCast_add, List.drop_length, ← empty_eq_ofList] at hrr
  have hexp : calcExpectedOverflow ((enc.length : Int) - (enc.length : Int)) v.pageSize = some (0, 0) := by
    rw [Int.sub_self]; exact overflow_none _ _ (Int.le_refl _)
  unfold parsePayloadCell
  simp only [hlim, localPayload_eq v.pageSize hu maxLoc hm enc.length, hB, hov, decide_false, if_false]
  simp only [Bool.false_eq_true, if_false, bind, Except.bind, pure, Except.pure, hexp, dictOfChain,
    List.foldl_nil, List.length_nil, List.getLast?_nil, ne_eq, not_true_eq_false, hrr]
  have htl : (enc.take enc.length).length = enc.length := by rw [List.length_take]; omega
  refine ⟨_, rfl, rfl, rfl, rfl, rfl, rfl, rfl, rfl, ?_, rfl, ?_, ?_, rfl, ?_⟩
  · simp only [Nat.lt_irrefl, decide_false]
  · simp only [List.length_append, htl, List.length_nil]; omega
  · simp only [List.length_append, htl, List.length_nil]; omega
  · show _ = _
    rw [digest_slice pre _ post _ (by simp only [List.length_append, htl, List.length_nil]; omega),
      List.drop_length]
    simp only [List.append_nil]

theorem laid_nil (v : VersionIf) (pgs : List Nat) (h : Spec.ChainLaidOut v pgs []) : pgs = [] := by
  cases pgs with
  | nil => rfl
  | cons p more =>
    have := (laid_head v p more [] h).2.1
    simp only [List.length_nil, Nat.lt_irrefl] at this

/-- common tail of the table-leaf, index-leaf and index-interior cell constructors on a cell
written by SQLite: `hdr` are the bytes of the cell before the payload -/
theorem payload_cell (v : VersionIf) (hu : 512 ≤ v.pageSize) (kind : CellKind) (maxLoc : Nat)
    (hlim : (if kind = .tableLeaf then (v.pageSize : Int) - 35 else payloadConst v.pageSize 64) = (maxLoc : Int))
    (hm : Spec.minLocal v.pageSize ≤ maxLoc)
    (cols : List Spec.Col) (hv : ∀ c ∈ cols, Spec.ValidCol c)
    (hn : (Spec.typeBytes cols).length + 3 < 2 ^ 21)
    (pgs : List Nat) (hpg : ∀ p ∈ pgs, p < 2 ^ 32)
    (pre hdr post : List Nat) (index : Nat) (lc : Option Nat) (rowid : Option Int)
    (hchain : Spec.ChainLaidOut v pgs ((Spec.encodeRecord cols).drop
        (Spec.localSize v.pageSize maxLoc (Spec.encodeRecord cols).length))) :
    ∃ c, parsePayloadCell v kind
        (Buf.ofList (pre ++ (hdr ++ (Spec.encodeRecord cols).take
            (Spec.localSize v.pageSize maxLoc (Spec.encodeRecord cols).length) ++
            (if Spec.localSize v.pageSize maxLoc (Spec.encodeRecord cols).length < (Spec.encodeRecord cols).length
              then Spec.be32 (pgs.headD 0) else [])) ++ post))
        index pre.length lc rowid ((Spec.encodeRecord cols).length : Int) hdr.length = .ok c ∧
      Good c kind index pre.length (hdr ++ (Spec.encodeRecord cols).take
            (Spec.localSize v.pageSize maxLoc (Spec.encodeRecord cols).length) ++
            (if Spec.localSize v.pageSize maxLoc (Spec.encodeRecord cols).length < (Spec.encodeRecord cols).length
              then Spec.be32 (pgs.headD 0) else []))
        lc rowid cols (Spec.localSize v.pageSize maxLoc (Spec.encodeRecord cols).length) pgs := by
  have hnd := laid_nodup v pgs _ hchain hpg
  by_cases hov : maxLoc < (Spec.encodeRecord cols).length
  · obtain ⟨_, _, hb3⟩ := local_bounds v.pageSize hu maxLoc hm _ hov
    rw [if_pos hb3]
    exact payload_cell_ov v hu kind maxLoc hlim hm cols hv hn pgs hnd hpg pre hdr post index lc rowid
      hov hchain
  · have hB : Spec.localSize v.pageSize maxLoc (Spec.encodeRecord cols).length
        = (Spec.encodeRecord cols).length := by
      unfold Spec.localSize; rw [if_pos (by omega)]
    have hnil : pgs = [] := by
      rw [hB, List.drop_length] at hchain
      exact laid_nil v pgs hchain
    subst hnil
    rw [if_neg (by rw [hB]; omega)]
    exact payload_cell_local v hu kind maxLoc hlim hm cols hv hn pre hdr post index lc rowid hov

theorem toI64_small (n : Nat) (h : n < 2 ^ 63) : Spec.toI64 n = (n : Int) := by
  unfold Spec.toI64; rw [if_pos h]

theorem table_leaf_cell_roundtrip (v : VersionIf) (hu : 512 ≤ v.pageSize)
    (cols : List Spec.Col) (hv : ∀ c ∈ cols, Spec.ValidCol c)
    (hn : (Spec.typeBytes cols).length + 3 < 2 ^ 21)
    (rowid : Int) (hr1 : -(2 ^ 63 : Int) ≤ rowid) (hr2 : rowid < (2 ^ 63 : Int))
    (hp : (Spec.encodeRecord cols).length < 2 ^ 63)
    (pgs : List Nat) (hpg : ∀ p ∈ pgs, p < 2 ^ 32)
    (pre post : List Nat) (index : Nat)
    (hchain : Spec.ChainLaidOut v pgs ((Spec.encodeRecord cols).drop
        (Spec.localSize v.pageSize (Spec.maxLeaf v.pageSize) (Spec.encodeRecord cols).length))) :
    ∃ c, parseCellLocal v .tableLeaf
          (Buf.ofList (pre ++ Spec.writeTableLeafCell v.pageSize rowid (Spec.encodeRecord cols) (pgs.headD 0) ++ post))
          index pre.length = .ok c ∧
      c.rowid = some rowid ∧
      c.payloadSize = some ((Spec.encodeRecord cols).length : Int) ∧
      c.bytesOnFirst = some (Spec.localSize v.pageSize (Spec.maxLeaf v.pageSize) (Spec.encodeRecord cols).length : Int) ∧
      c.overflowPages.map (·.number) = pgs ∧
      c.start = pre.length ∧
      c.end_ = ((pre.length + (Spec.writeTableLeafCell v.pageSize rowid (Spec.encodeRecord cols) (pgs.headD 0)).length : Nat) : Int) ∧
      (∃ r, c.record = some r ∧ r.cols = cols.map expectedCol ∧ r.content = Spec.encodeRecord cols) ∧
      c.digest = Spec.writeTableLeafCell v.pageSize rowid (Spec.encodeRecord cols) (pgs.headD 0) ++
        (Spec.encodeRecord cols).drop (Spec.localSize v.pageSize (Spec.maxLeaf v.pageSize) (Spec.encodeRecord cols).length) := by
  have hlim : (if CellKind.tableLeaf = .tableLeaf then (v.pageSize : Int) - 35 else payloadConst v.pageSize 64)
      = (Spec.maxLeaf v.pageSize : Int) := by
    rw [if_pos rfl]; unfold Spec.maxLeaf; omega
  obtain ⟨c, hc, hgood⟩ := payload_cell v hu .tableLeaf (Spec.maxLeaf v.pageSize) hlim
    (by unfold Spec.maxLeaf; exact (minLocal_le v.pageSize hu).1) cols hv hn pgs hpg pre
    (Spec.putVarint (Spec.encodeRecord cols).length ++ Spec.putVarint (Spec.toU64 rowid)) post index none
    (some rowid) hchain
  have hcell : Spec.writeTableLeafCell v.pageSize rowid (Spec.encodeRecord cols) (pgs.headD 0)
      = Spec.putVarint (Spec.encodeRecord cols).length ++ Spec.putVarint (Spec.toU64 rowid) ++
        (Spec.encodeRecord cols).take (Spec.localSize v.pageSize (Spec.maxLeaf v.pageSize) (Spec.encodeRecord cols).length) ++
        (if Spec.localSize v.pageSize (Spec.maxLeaf v.pageSize) (Spec.encodeRecord cols).length < (Spec.encodeRecord cols).length
          then Spec.be32 (pgs.headD 0) else []) := rfl
  rw [hcell]
  unfold Good at hgood
  generalize hE : Spec.encodeRecord cols = enc at *
  generalize hB : Spec.localSize v.pageSize (Spec.maxLeaf v.pageSize) enc.length = b at *
  generalize hT : (if b < enc.length then Spec.be32 (pgs.headD 0) else []) = ptr at *
  have hP : enc.length < 2 ^ 63 := hp
  have hd1 := decodeVarint_at
    (Buf.ofList (pre ++ (Spec.putVarint enc.length ++ Spec.putVarint (Spec.toU64 rowid) ++ enc.take b ++ ptr) ++ post))
    pre (Spec.putVarint (Spec.toU64 rowid) ++ enc.take b ++ ptr ++ post) enc.length
    (by have : (2 : Nat) ^ 63 < 2 ^ 64 := by decide
        omega)
    (by rw [ofList_toList]; simp only [List.append_assoc])
  have hd2 := decodeVarint_at
    (Buf.ofList (pre ++ (Spec.putVarint enc.length ++ Spec.putVarint (Spec.toU64 rowid) ++ enc.take b ++ ptr) ++ post))
    (pre ++ Spec.putVarint enc.length) (enc.take b ++ ptr ++ post) (Spec.toU64 rowid) (toU64_lt _)
    (by rw [ofList_toList]; simp only [List.append_assoc])
  rw [toI64_small _ hP] at hd1
  rw [toI64_toU64 rowid hr1 hr2, List.length_append, spec_put_length] at hd2
  rw [List.length_append, spec_put_length, spec_put_length] at hc
  obtain ⟨g1, g2, g3, g4, g5, g6, g7, g8, g9, g10, g11, g12, g13⟩ := hgood
  refine ⟨c, ?_, g5, g6, g7, g9, g3, g10, ⟨_, g12, rfl, rfl⟩, g13⟩
  unfold parseCellLocal
  simp only [hd1, hd2, bind, Except.bind]
  exact hc

theorem index_leaf_cell_roundtrip (v : VersionIf) (hu : 512 ≤ v.pageSize)
    (cols : List Spec.Col) (hv : ∀ c ∈ cols, Spec.ValidCol c)
    (hn : (Spec.typeBytes cols).length + 3 < 2 ^ 21)
    (hp : (Spec.encodeRecord cols).length < 2 ^ 63)
    (pgs : List Nat) (hpg : ∀ p ∈ pgs, p < 2 ^ 32)
    (pre post : List Nat) (index : Nat)
    (hchain : Spec.ChainLaidOut v pgs ((Spec.encodeRecord cols).drop
        (Spec.localSize v.pageSize (Spec.maxLocalIndex v.pageSize) (Spec.encodeRecord cols).length))) :
    ∃ c, parseCellLocal v .indexLeaf
          (Buf.ofList (pre ++ Spec.writeIndexLeafCell v.pageSize (Spec.encodeRecord cols) (pgs.headD 0) ++ post))
          index pre.length = .ok c ∧
      c.rowid = none ∧
      c.payloadSize = some ((Spec.encodeRecord cols).length : Int) ∧
      c.bytesOnFirst = some (Spec.localSize v.pageSize (Spec.maxLocalIndex v.pageSize) (Spec.encodeRecord cols).length : Int) ∧
      c.overflowPages.map (·.number) = pgs ∧
      c.start = pre.length ∧
      c.end_ = ((pre.length + (Spec.writeIndexLeafCell v.pageSize (Spec.encodeRecord cols) (pgs.headD 0)).length : Nat) : Int) ∧
      (∃ r, c.record = some r ∧ r.cols = cols.map expectedCol ∧ r.content = Spec.encodeRecord cols) ∧
      c.digest = Spec.writeIndexLeafCell v.pageSize (Spec.encodeRecord cols) (pgs.headD 0) ++
        (Spec.encodeRecord cols).drop (Spec.localSize v.pageSize (Spec.maxLocalIndex v.pageSize) (Spec.encodeRecord cols).length) := by
  have hlim : (if CellKind.indexLeaf = .tableLeaf then (v.pageSize : Int) - 35 else payloadConst v.pageSize 64)
      = (Spec.maxLocalIndex v.pageSize : Int) := by
    rw [if_neg (by decide)]; exact (payload_constants v.pageSize hu).2
  obtain ⟨c, hc, hgood⟩ := payload_cell v hu .indexLeaf (Spec.maxLocalIndex v.pageSize) hlim
    (minLocal_le v.pageSize hu).2 cols hv hn pgs hpg pre
    (Spec.putVarint (Spec.encodeRecord cols).length) post index none none hchain
  have hcell : Spec.writeIndexLeafCell v.pageSize (Spec.encodeRecord cols) (pgs.headD 0)
      = Spec.putVarint (Spec.encodeRecord cols).length ++
        (Spec.encodeRecord cols).take (Spec.localSize v.pageSize (Spec.maxLocalIndex v.pageSize) (Spec.encodeRecord cols).length) ++
        (if Spec.localSize v.pageSize (Spec.maxLocalIndex v.pageSize) (Spec.encodeRecord cols).length < (Spec.encodeRecord cols).length
          then Spec.be32 (pgs.headD 0) else []) := rfl
  rw [hcell]
  unfold Good at hgood
  generalize hE : Spec.encodeRecord cols = enc at *
  generalize hB : Spec.localSize v.pageSize (Spec.maxLocalIndex v.pageSize) enc.length = b at *
  generalize hT : (if b < enc.length then Spec.be32 (pgs.headD 0) else []) = ptr at *
  have hP : enc.length < 2 ^ 63 := hp
  have hd1 := decodeVarint_at
    (Buf.ofList (pre ++ (Spec.putVarint enc.length ++ enc.take b ++ ptr) ++ post))
    pre (enc.take b ++ ptr ++ post) enc.length
    (by have : (2 : Nat) ^ 63 < 2 ^ 64 := by decide
        omega)
    (by rw [ofList_toList]; simp only [List.append_assoc])
  rw [toI64_small _ hP] at hd1
  rw [spec_put_length] at hc
  obtain ⟨g1, g2, g3, g4, g5, g6, g7, g8, g9, g10, g11, g12, g13⟩ := hgood
  refine ⟨c, ?_, g5, g6, g7, g9, g3, g10, ⟨_, g12, rfl, rfl⟩, g13⟩
  unfold parseCellLocal
  simp only [hd1, bind, Except.bind]
  exact hc

end SqliteDissect.Proofs.CellParse
