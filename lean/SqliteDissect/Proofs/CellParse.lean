import SqliteDissect.Proofs.Record
import SqliteDissect.Proofs.CellArith
import SqliteDissect.Spec.CellWrite
namespace SqliteDissect.Proofs.CellParse
end SqliteDissect.Proofs.CellParse
