import SqliteDissect.Proofs.Record
import SqliteDissect.Proofs.CellArith
import SqliteDissect.Spec.CellWrite
namespace SqliteDissect.Proofs.CellChain
open SqliteDissect SqliteDissect.Model
open SqliteDissect.Proofs.Codec SqliteDissect.Proofs.Record SqliteDissect.Proofs.CellArith

/-! ### buffers -/

theorem ofArray_eq_ofList (a : Array Nat) : Buf.ofArray a = Buf.ofList a.toList := by
  unfold Buf.ofArray Buf.ofList
  congr 1
  funext i
  simp [Array.getD, List.getD]
  split <;> simp_all

theorem empty_eq_ofList : Buf.empty = Buf.ofList [] := by
  unfold Buf.empty Buf.ofList
  congr 1

theorem toArray_toList (b : Buf) : b.toArray.toList = b.toList := by
  unfold Buf.toArray Buf.toList
  apply List.ext_getElem
  · simp
  · intro i h1 h2
    simp

theorem append_toArray_toList (a : Array Nat) (b : Buf) :
    (a ++ b.toArray).toList = a.toList ++ b.toList := by
  rw [Array.toList_append, toArray_toList]

/-! ### 4-byte big-endian -/

theorem be32_length (n : Nat) : (Spec.be32 n).length = 4 := rfl

theorem rd_mid (b : Buf) (p m q : List Nat) (h : b.toList = p ++ m ++ q) (i : Nat) (hi : i < m.length) :
    b.rd (p.length + i) = m[i] := by
  have hlen : p.length + i < (p ++ m ++ q).length := by simp only [List.length_append]; omega
  obtain ⟨_, e⟩ := rd_of_toList b _ h (p.length + i) hlen
  rw [e]
  simp only [List.append_assoc, List.getElem_append_right (Nat.le_add_right p.length i),
    Nat.add_sub_cancel_left, List.getElem_append_left hi]

theorem unpackAt_be32 (b : Buf) (p q : List Nat) (n : Nat) (hn : n < 2 ^ 32)
    (h : b.toList = p ++ Spec.be32 n ++ q) : unpackAt b (p.length : Int) 4 = .ok n := by
  have hsz : p.length + 4 ≤ b.size := by
    rw [← toList_length, h]; simp only [List.length_append, be32_length]; omega
  have r0 := rd_mid b p _ q h 0 (by rw [be32_length]; omega)
  have r1 := rd_mid b p _ q h 1 (by rw [be32_length]; omega)
  have r2 := rd_mid b p _ q h 2 (by rw [be32_length]; omega)
  have r3 := rd_mid b p _ q h 3 (by rw [be32_length]; omega)
  unfold unpackAt
  have e : ((p.length : Int) + ((4 : Nat) : Int)) = ((p.length + 4 : Nat) : Int) := by omega
  simp only [e]
  rw [pySlice_nat b p.length (p.length + 4) hsz (by omega)]
  have h1 : min p.length b.size = p.length := by omega
  have h2 : min (p.length + 4) b.size = p.length + 4 := by omega
  have hs : (b.slice p.length (p.length + 4)).size = 4 := by
    simp only [Buf.slice, h1, h2]; omega
  rw [if_pos hs]
  simp only [Buf.beN, Buf.slice, h1, Nat.zero_add, r0, r1, r2, r3, Spec.be32,
    List.getElem_cons_zero, List.getElem_cons_succ]
  congr 1
  simp only [Nat.reducePow] at hn
  omega

/-! ### one overflow page -/

theorem parseOverflowPage_served (v : VersionIf) (hu : 4 < v.pageSize) (p nx : Nat) (tl : List Nat)
    (r : Nat) (hs : Spec.Serves v p (Spec.be32 nx ++ tl)) (hnx : nx < 2 ^ 32) (hr : 0 < r)
    (hlast : r ≤ v.pageSize - 4 → nx = 0) :
    ∃ pv, parseOverflowPage v p (r : Int) = .ok ⟨p, nx, min r (v.pageSize - 4), pv⟩ := by
  obtain ⟨pv, hpv⟩ := hs.version
  obtain ⟨o, ho⟩ := hs.offset
  obtain ⟨b, hb, hbl, _⟩ := hs.whole
  have hun : unpackAt b 0 4 = .ok nx := by
    have := unpackAt_be32 b [] tl nx hnx (by rw [hbl]; rfl)
    simpa only [List.length_nil, Int.natCast_zero] using this
  refine ⟨pv, ?_⟩
  unfold parseOverflowPage
  have hg : Generated.OVERFLOW_HEADER_LENGTH = 4 := rfl
  have c0 : ¬ ((r : Int) ≤ 0) := by omega
  simp only [hg, hpv, ho, hb, hun, bind, Except.bind, c0, if_false, pure, Except.pure,
    decide_eq_true_eq]
  by_cases hl : r ≤ v.pageSize - 4
  · have c1 : (r : Int) ≤ (v.pageSize : Int) - ((4 : Nat) : Int) := by omega
    have c2 : ¬ ((r : Int) ≤ (v.pageSize : Int) - ((4 : Nat) : Int) ∧ nx ≠ 0) := by
      intro h; exact h.2 (hlast hl)
    rw [if_neg c2]
    simp only [c1, if_true]
    congr 2
    omega
  · have c1 : ¬ (r : Int) ≤ (v.pageSize : Int) - ((4 : Nat) : Int) := by omega
    have c2 : ¬ ((r : Int) ≤ (v.pageSize : Int) - ((4 : Nat) : Int) ∧ nx ≠ 0) := by
      intro h; exact c1 h.1
    rw [if_neg c2]
    simp only [c1, if_false]
    congr 2
    omega

/-! ### what `ChainLaidOut` says about the first page and about the rest -/

theorem laid_head (v : VersionIf) (p : Nat) (more rest : List Nat)
    (h : Spec.ChainLaidOut v (p :: more) rest) :
    p ≠ 0 ∧ 0 < rest.length ∧ (more = [] ↔ rest.length ≤ v.pageSize - 4) ∧
      ∃ tl, Spec.Serves v p (Spec.be32 (more.headD 0) ++ tl) ∧
        tl.take (min rest.length (v.pageSize - 4)) = rest.take (v.pageSize - 4) := by
  cases more with
  | nil =>
    obtain ⟨h1, h2, h3, pad, hs⟩ := h
    refine ⟨h3, h1, ⟨fun _ => h2, fun _ => rfl⟩, rest ++ pad, ?_, ?_⟩
    · rw [← List.append_assoc]; exact hs
    · rw [Nat.min_eq_left h2, List.take_left' rfl, List.take_of_length_le h2]
  | cons q m =>
    obtain ⟨h1, h2, hs, _⟩ := h
    refine ⟨h2, by omega, ⟨fun h => (by cases h), fun h => (by omega)⟩, rest.take (v.pageSize - 4), hs, ?_⟩
    rw [List.take_take, Nat.min_eq_right (by omega)]

theorem laid_tail (v : VersionIf) (p : Nat) (more rest : List Nat)
    (h : Spec.ChainLaidOut v (p :: more) rest) :
    Spec.ChainLaidOut v more (rest.drop (v.pageSize - 4)) := by
  cases more with
  | nil =>
    obtain ⟨_, h2, _⟩ := h
    exact List.drop_eq_nil_of_le h2
  | cons q m => exact h.2.2.2

theorem laid_length (v : VersionIf) (hu : 4 < v.pageSize) : ∀ (pgs rest : List Nat),
    Spec.ChainLaidOut v pgs rest → pgs.length = Spec.overflowPages v.pageSize rest.length := by
  intro pgs
  induction pgs with
  | nil =>
    intro rest h
    have : rest = [] := h
    subst this
    unfold Spec.overflowPages
    simp only [List.length_nil, Nat.zero_add]
    rw [Nat.div_eq_of_lt (by omega)]
  | cons p more ih =>
    intro rest h
    obtain ⟨_, h0, hiff, _⟩ := laid_head v p more rest h
    have := ih _ (laid_tail v p more rest h)
    rw [List.length_cons, this, List.length_drop]
    unfold Spec.overflowPages
    by_cases hl : rest.length ≤ v.pageSize - 4
    · have e : rest.length - (v.pageSize - 4) = 0 := by omega
      rw [e, Nat.zero_add, Nat.div_eq_of_lt (by omega)]
      have : rest.length + (v.pageSize - 4) - 1 = (rest.length - 1) + (v.pageSize - 4) := by omega
      rw [this, Nat.add_div_right _ (by omega), Nat.div_eq_of_lt (by omega)]
    · have : rest.length + (v.pageSize - 4) - 1
          = (rest.length - (v.pageSize - 4) + (v.pageSize - 4) - 1) + (v.pageSize - 4) := by omega
      rw [this, Nat.add_div_right _ (by omega)]

/-! ### the chain walk on a laid-out chain -/

/-- content lengths of `n` chained pages holding `r` bytes, `k` per page -/
def expLens (k : Nat) : Nat → Nat → List Nat
  | 0, _ => []
  | n+1, r => min r k :: expLens k n (r - k)

theorem loop_laid (v : VersionIf) (hu : 4 < v.pageSize) :
    ∀ (more : List Nat) (p : Nat) (rest : List Nat) (fuel : Nat) (cur : OvflPage) (acc : List OvflPage),
      Spec.ChainLaidOut v (p :: more) rest → (∀ q ∈ more, q < 2 ^ 32) → more.Nodup →
      (∀ q ∈ more, ∀ a ∈ acc, a.number ≠ q) → cur.next = more.headD 0 → more.length < fuel →
      ∃ tail, overflowChainLoop v fuel cur (rest.length : Int) acc = .ok (acc.reverse ++ tail) ∧
        tail.map (·.number) = more ∧
        tail.map (·.contentLength)
          = expLens (v.pageSize - 4) more.length (rest.length - (v.pageSize - 4)) := by
  intro more
  induction more with
  | nil =>
    intro p rest fuel cur acc _ _ _ _ hcur hf
    obtain ⟨f, rfl⟩ : ∃ f, fuel = f + 1 := ⟨fuel - 1, by simp only [List.length_nil] at hf; omega⟩
    refine ⟨[], ?_, rfl, rfl⟩
    have hcur' : cur.next = 0 := hcur
    unfold overflowChainLoop
    rw [if_pos hcur', List.append_nil]
  | cons q m ih =>
    intro p rest fuel cur acc h hlt hnd hacc hcur hf
    obtain ⟨f, rfl⟩ : ∃ f, fuel = f + 1 := ⟨fuel - 1, by simp only [List.length_cons] at hf; omega⟩
    obtain ⟨_, _, hiff, _⟩ := laid_head v p (q :: m) rest h
    have hk : v.pageSize - 4 < rest.length := by
      have : ¬ (q :: m = []) := by intro h; cases h
      rw [hiff] at this; omega
    have ht := laid_tail v p (q :: m) rest h
    obtain ⟨hq0, hr', hiff', tl, hs, _⟩ := laid_head v q m _ ht
    have hnx : m.headD 0 < 2 ^ 32 := by
      cases m with
      | nil => simp
      | cons a m' => exact hlt a (by simp)
    obtain ⟨pv, hpg⟩ := parseOverflowPage_served v hu q (m.headD 0) tl (rest.drop (v.pageSize - 4)).length
      hs hnx hr' (by
        intro hle
        rw [hiff'.2 hle]; rfl)
    have hnd' := List.nodup_cons.1 hnd
    obtain ⟨tail, hloop, hnum, hlen⟩ := ih q (rest.drop (v.pageSize - 4)) f
      ⟨q, m.headD 0, min (rest.drop (v.pageSize - 4)).length (v.pageSize - 4), pv⟩
      (⟨q, m.headD 0, min (rest.drop (v.pageSize - 4)).length (v.pageSize - 4), pv⟩ :: acc) ht
      (fun x hx => hlt x (List.mem_cons_of_mem _ hx)) hnd'.2
      (by
        intro x hx a ha
        rcases List.mem_cons.1 ha with rfl | ha
        · intro e; simp only at e; subst e; exact hnd'.1 hx
        · exact hacc x (List.mem_cons_of_mem _ hx) a ha)
      rfl (by simp only [List.length_cons] at hf; omega)
    refine ⟨(⟨q, m.headD 0, min (rest.drop (v.pageSize - 4)).length (v.pageSize - 4), pv⟩ : OvflPage) :: tail,
      ?_, ?_, ?_⟩
    · unfold overflowChainLoop
      simp only [List.headD_cons] at hcur
      have hany : ¬ (acc.any (fun x => decide (x.number = q)) = true) := by
        rw [List.any_eq_true]
        rintro ⟨a, ha, e⟩
        exact hacc q (List.mem_cons_self ..) a ha (by simpa using e)
      have hrem : (rest.length : Int) - (v.pageSize : Int) + ((Generated.OVERFLOW_HEADER_LENGTH : Nat) : Int)
          = (((rest.drop (v.pageSize - 4)).length : Nat) : Int) := by
        simp only [Generated.OVERFLOW_HEADER_LENGTH, List.length_drop]; omega
      rw [hcur, if_neg hq0, if_neg hany]
      simp only [hrem, hpg, bind, Except.bind]
      rw [hloop, List.reverse_cons, List.append_assoc]; rfl
    · rw [List.map_cons, hnum]
    · rw [List.map_cons, hlen, List.length_cons, expLens, List.length_drop]

theorem ceil_le_fuel (n k : Nat) (hk : 0 < k) (hn : 0 < n) : (n + k - 1) / k < n / k + 2 := by
  have e : n + k - 1 = (n - 1) + k := by omega
  rw [e, Nat.add_div_right _ hk]
  have : (n - 1) / k ≤ n / k := Nat.div_le_div_right (by omega)
  omega

/-- the whole chain of a cell whose overflow bytes are laid out in `p :: more` -/
theorem chain_laid (v : VersionIf) (hu : 4 < v.pageSize) (p : Nat) (more rest : List Nat)
    (h : Spec.ChainLaidOut v (p :: more) rest) (hlt : ∀ q ∈ p :: more, q < 2 ^ 32)
    (hnd : (p :: more).Nodup) :
    ∃ ch, parseOverflowChain v p (rest.length : Int) = .ok ch ∧ ch.map (·.number) = p :: more ∧
      ch.map (·.contentLength) = expLens (v.pageSize - 4) (more.length + 1) rest.length := by
  obtain ⟨_, hr, hiff, tl, hs, _⟩ := laid_head v p more rest h
  have hnx : more.headD 0 < 2 ^ 32 := by
    cases more with
    | nil => simp
    | cons a m' => exact hlt a (by simp)
  obtain ⟨pv, hpg⟩ := parseOverflowPage_served v hu p (more.headD 0) tl rest.length hs hnx hr (by
    intro hle
    rw [hiff.2 hle]; rfl)
  have hnd' := List.nodup_cons.1 hnd
  have hlen := laid_length v hu _ _ h
  unfold Spec.overflowPages at hlen
  have hfuel := ceil_le_fuel rest.length (v.pageSize - 4) (by omega) hr
  obtain ⟨tail, hloop, hnum, hlens⟩ := loop_laid v hu more p rest
    (rest.length / (v.pageSize - 4) + 2) ⟨p, more.headD 0, min rest.length (v.pageSize - 4), pv⟩
    [⟨p, more.headD 0, min rest.length (v.pageSize - 4), pv⟩] h
    (fun x hx => hlt x (List.mem_cons_of_mem _ hx)) hnd'.2
    (by
      intro x hx a ha
      rw [List.mem_singleton] at ha
      subst ha
      intro e; simp only at e; subst e; exact hnd'.1 hx)
    rfl (by rw [List.length_cons] at hlen; omega)
  refine ⟨(⟨p, more.headD 0, min rest.length (v.pageSize - 4), pv⟩ : OvflPage) :: tail, ?_, ?_, ?_⟩
  · unfold parseOverflowChain
    simp only [hpg, bind, Except.bind, Int.toNat_natCast, Generated.OVERFLOW_HEADER_LENGTH]
    rw [hloop]; rfl
  · rw [List.map_cons, hnum]
  · rw [List.map_cons, hlens, expLens]

/-! ### the page-number dictionary -/

theorem dictInsert_fresh {α : Type} (d : List (Nat × α)) (k : Nat) (x : α) (h : ∀ e ∈ d, e.1 ≠ k) :
    dictInsert d k x = d ++ [(k, x)] := by
  unfold dictInsert
  have : ¬ (d.any (fun e => decide (e.1 = k)) = true) := by
    rw [List.any_eq_true]
    rintro ⟨e, he, h'⟩
    exact h e he (by simpa using h')
  rw [if_neg this]

theorem dict_keys : ∀ (ch : List OvflPage) (d : List (Nat × OvflPage)),
    (d.map (·.1) ++ ch.map (·.number)).Nodup →
    (ch.foldl (fun d p => dictInsert d p.number p) d).map (·.1) = d.map (·.1) ++ ch.map (·.number) := by
  intro ch
  induction ch with
  | nil => intro d _; simp
  | cons c cs ih =>
    intro d hnd
    have hfresh : ∀ e ∈ d, e.1 ≠ c.number := by
      intro e he heq
      rw [List.map_cons, List.nodup_append] at hnd
      exact hnd.2.2 e.1 (List.mem_map_of_mem he) c.number (List.mem_cons_self ..) heq
    rw [List.foldl_cons, dictInsert_fresh d _ _ hfresh, ih]
    · simp
    · simpa using hnd

theorem dictOfChain_length (ch : List OvflPage) (h : (ch.map (·.number)).Nodup) :
    (dictOfChain ch).length = ch.length := by
  have := dict_keys ch [] (by simpa using h)
  have h2 := congrArg List.length this
  simpa [dictOfChain] using h2

/-! ### the overflow buffer -/

theorem fold_laid (v : VersionIf) (hu : 4 < v.pageSize)
    (f : Array Nat → OvflPage → Py (Array Nat))
    (hf : ∀ acc pg, f acc pg = (v.getData pg.number 4 (some pg.contentLength)).bind
      (fun c => .ok (acc ++ c.toArray))) :
    ∀ (pgs rest : List Nat) (ch : List OvflPage) (a0 : Array Nat),
      Spec.ChainLaidOut v pgs rest → ch.map (·.number) = pgs →
      ch.map (·.contentLength) = expLens (v.pageSize - 4) pgs.length rest.length →
      ∃ a, ch.foldlM f a0 = .ok a ∧ a.toList = a0.toList ++ rest := by
  intro pgs
  induction pgs with
  | nil =>
    intro rest ch a0 h hnum _
    have : rest = [] := h
    subst this
    rw [List.map_eq_nil_iff] at hnum
    subst hnum
    exact ⟨a0, rfl, by simp⟩
  | cons p more ih =>
    intro rest ch a0 h hnum hlens
    obtain ⟨c, cs, rfl⟩ : ∃ c cs, ch = c :: cs := by
      cases ch with
      | nil => simp at hnum
      | cons c cs => exact ⟨c, cs, rfl⟩
    simp only [List.map_cons, List.cons.injEq, List.length_cons, expLens] at hnum hlens
    obtain ⟨hcn, hcsn⟩ := hnum
    obtain ⟨hcl, hcsl⟩ := hlens
    obtain ⟨_, hr, _, tl, hs, htl⟩ := laid_head v p more rest h
    have hsz := hs.size
    rw [List.length_append, be32_length] at hsz
    obtain ⟨b, hb, hbl, _⟩ := hs.part 4 (min rest.length (v.pageSize - 4)) (by omega) (by omega)
    rw [List.drop_left' (be32_length _), htl] at hbl
    obtain ⟨a, ha, hal⟩ := ih (rest.drop (v.pageSize - 4)) cs (a0 ++ b.toArray)
      (laid_tail v p more rest h) hcsn (by rw [hcsl, List.length_drop])
    refine ⟨a, ?_, ?_⟩
    · rw [List.foldlM_cons, hf, hcn, hcl, hb]
      exact ha
    · rw [hal, append_toArray_toList, hbl, List.append_assoc, List.take_append_drop]

/-! ### a laid-out chain cannot visit a page twice -/

theorem be32_inj (a b : Nat) (ha : a < 2 ^ 32) (hb : b < 2 ^ 32) (h : Spec.be32 a = Spec.be32 b) :
    a = b := by
  unfold Spec.be32 at h
  simp only [List.cons.injEq, and_true] at h
  simp only [Nat.reducePow] at ha hb
  omega

theorem serves_next_unique (v : VersionIf) (p n1 n2 : Nat) (t1 t2 : List Nat)
    (h1 : Spec.Serves v p (Spec.be32 n1 ++ t1)) (h2 : Spec.Serves v p (Spec.be32 n2 ++ t2))
    (hn1 : n1 < 2 ^ 32) (hn2 : n2 < 2 ^ 32) : n1 = n2 := by
  obtain ⟨b1, hb1, hl1, _⟩ := h1.whole
  obtain ⟨b2, hb2, hl2, _⟩ := h2.whole
  rw [hb1] at hb2
  cases hb2
  have h := congrArg (List.take 4) (hl1.symm.trans hl2)
  rw [List.take_left' (be32_length _), List.take_left' (be32_length _)] at h
  exact be32_inj _ _ hn1 hn2 h

theorem laid_suffix (v : VersionIf) : ∀ (a l rest : List Nat),
    Spec.ChainLaidOut v (a ++ l) rest → ∃ rest', Spec.ChainLaidOut v l rest' := by
  intro a
  induction a with
  | nil => intro l rest h; exact ⟨rest, h⟩
  | cons x a ih => intro l rest h; exact ih l _ (laid_tail v x (a ++ l) rest h)

theorem headD_lt (l : List Nat) (h : ∀ q ∈ l, q < 2 ^ 32) : l.headD 0 < 2 ^ 32 := by
  cases l with
  | nil => simp
  | cons a m => exact h a (List.mem_cons_self ..)

theorem laid_head_notin (v : VersionIf) : ∀ (n : Nat) (p : Nat) (more rest : List Nat),
    more.length ≤ n → Spec.ChainLaidOut v (p :: more) rest → (∀ q ∈ p :: more, q < 2 ^ 32) →
    p ∉ more := by
  intro n
  induction n with
  | zero =>
    intro p more rest hl _ _
    have : more = [] := List.eq_nil_of_length_eq_zero (by omega)
    subst this; simp
  | succ n ih =>
    intro p more rest hl h hlt hmem
    obtain ⟨a, c, rfl⟩ := List.append_of_mem hmem
    obtain ⟨rest', hsub⟩ := laid_suffix v (p :: a) (p :: c) rest (by simpa using h)
    obtain ⟨hp0, _, _, t1, hs1, _⟩ := laid_head v p (a ++ p :: c) rest h
    obtain ⟨_, _, _, t2, hs2, _⟩ := laid_head v p c rest' hsub
    have hltc : ∀ q ∈ p :: c, q < 2 ^ 32 := by
      intro q hq
      apply hlt q
      rcases List.mem_cons.1 hq with rfl | hq
      · exact List.mem_cons_self ..
      · exact List.mem_cons_of_mem _ (List.mem_append_right _ (List.mem_cons_of_mem _ hq))
    have heq := serves_next_unique v p _ _ t1 t2 hs1 hs2
      (headD_lt _ (fun q hq => hlt q (List.mem_cons_of_mem _ hq)))
      (headD_lt _ (fun q hq => hltc q (List.mem_cons_of_mem _ hq)))
    simp only [List.length_append, List.length_cons] at hl
    cases a with
    | nil =>
      simp only [List.nil_append, List.headD_cons] at heq
      cases c with
      | nil => exact hp0 heq
      | cons c0 c' =>
        simp only [List.headD_cons] at heq
        subst heq
        exact ih p (p :: c') rest' (by simp only [List.length_cons] at hl ⊢; omega) hsub hltc
          (List.mem_cons_self ..)
    | cons a0 a' =>
      simp only [List.cons_append, List.headD_cons] at heq
      have htl := laid_tail v p _ rest h
      simp only [List.cons_append] at htl
      obtain ⟨ha0, _⟩ := laid_head v a0 _ _ htl
      cases c with
      | nil => exact ha0 heq
      | cons c0 c' =>
        simp only [List.headD_cons] at heq
        subst heq
        refine ih a0 (a' ++ p :: a0 :: c') _ (by simp only [List.length_append, List.length_cons] at hl ⊢; omega)
          htl (fun q hq => hlt q (List.mem_cons_of_mem _ (by simpa using hq))) ?_
        simp

/-- the pages of a laid-out chain are pairwise distinct (each page has one next pointer and the
chain ends) -/
theorem laid_nodup (v : VersionIf) : ∀ (pgs rest : List Nat),
    Spec.ChainLaidOut v pgs rest → (∀ q ∈ pgs, q < 2 ^ 32) → pgs.Nodup := by
  intro pgs
  induction pgs with
  | nil => intro _ _ _; exact List.nodup_nil
  | cons p more ih =>
    intro rest h hlt
    rw [List.nodup_cons]
    exact ⟨laid_head_notin v more.length p more rest (Nat.le_refl _) h hlt,
      ih _ (laid_tail v p more rest h) (fun q hq => hlt q (List.mem_cons_of_mem _ hq))⟩

end SqliteDissect.Proofs.CellChain
