/-
Tree level of C01 / C14: a b-tree laid out as SQLite lays it out (`Spec.TreeLaidOut`) is
constructed by `parseBTree` into exactly its pages and cells.
-/
import SqliteDissect.Spec.TreeWrite
import SqliteDissect.Proofs.PageParse
import SqliteDissect.Proofs.TreeWalk
namespace SqliteDissect.Proofs.TreeParse
open SqliteDissect SqliteDissect.Model
open SqliteDissect.Proofs.Codec SqliteDissect.Proofs.Record SqliteDissect.Proofs.PageParse
open SqliteDissect.Spec (CellSpec PageLayout PageLaidOut StoredAt Elementwise TTree Key TreeLaidOut
  PageServed NodeReported)

/-! ### `Elementwise` -/

theorem elementwise_nil {α β : Type} (R : α → β → Prop) : Elementwise R [] [] := trivial

theorem elementwise_cons {α β : Type} (R : α → β → Prop) (a : α) (b : β) (as : List α) (bs : List β) :
    Elementwise R (a :: as) (b :: bs) ↔ R a b ∧ Elementwise R as bs := Iff.rfl

theorem elementwise_append {α β : Type} (R : α → β → Prop) : ∀ (a1 : List α) (b1 : List β)
    (a2 : List α) (b2 : List β), Elementwise R a1 b1 → Elementwise R a2 b2 →
    Elementwise R (a1 ++ a2) (b1 ++ b2) := by
  intro a1
  induction a1 with
  | nil =>
    intro b1 a2 b2 h1 h2
    cases b1 with
    | nil => exact h2
    | cons b bs => exact absurd h1 (by simp [Elementwise])
  | cons a as ih =>
    intro b1 a2 b2 h1 h2
    cases b1 with
    | nil => exact absurd h1 (by simp [Elementwise])
    | cons b bs => exact ⟨h1.1, ih bs a2 b2 h1.2 h2⟩

theorem elementwise_flatten {α β : Type} (R : α → β → Prop) : ∀ (a : List (List α)) (b : List (List β)),
    Elementwise (Elementwise R) a b → Elementwise R a.flatten b.flatten := by
  intro a
  induction a with
  | nil =>
    intro b h
    cases b with
    | nil => trivial
    | cons b bs => exact absurd h (by simp [Elementwise])
  | cons a as ih =>
    intro b h
    cases b with
    | nil => exact absurd h (by simp [Elementwise])
    | cons b bs =>
      simp only [List.flatten_cons]
      exact elementwise_append R _ _ _ _ h.1 (ih bs h.2)

theorem elementwise_length {α β : Type} (R : α → β → Prop) : ∀ (a : List α) (b : List β),
    Elementwise R a b → a.length = b.length := by
  intro a
  induction a with
  | nil =>
    intro b h
    cases b with
    | nil => rfl
    | cons b bs => exact absurd h (by simp [Elementwise])
  | cons a as ih =>
    intro b h
    cases b with
    | nil => exact absurd h (by simp [Elementwise])
    | cons b bs => simp only [List.length_cons, ih bs h.2]

theorem elementwise_getElem {α β : Type} (R : α → β → Prop) : ∀ (a : List α) (b : List β),
    Elementwise R a b → ∀ i (h1 : i < a.length) (h2 : i < b.length), R a[i] b[i] := by
  intro a
  induction a with
  | nil => intro b _ i h1; simp at h1
  | cons a as ih =>
    intro b h i h1 h2
    cases b with
    | nil => exact absurd h (by simp [Elementwise])
    | cons b bs =>
      cases i with
      | zero => exact h.1
      | succ j => simpa using ih bs h.2 j (by simpa using h1) (by simpa using h2)

theorem elementwise_mono {α β : Type} (R S : α → β → Prop) (hrs : ∀ a b, R a b → S a b) :
    ∀ (a : List α) (b : List β), Elementwise R a b → Elementwise S a b := by
  intro a
  induction a with
  | nil =>
    intro b h
    cases b with
    | nil => trivial
    | cons b bs => exact absurd h (by simp [Elementwise])
  | cons a as ih =>
    intro b h
    cases b with
    | nil => exact absurd h (by simp [Elementwise])
    | cons b bs => exact ⟨hrs _ _ h.1, ih bs h.2⟩

theorem exists_elementwise {α β : Type} (R : α → β → Prop) : ∀ (a : List α),
    (∀ x ∈ a, ∃ y, R x y) → ∃ b, Elementwise R a b := by
  intro a
  induction a with
  | nil => intro _; exact ⟨[], trivial⟩
  | cons x xs ih =>
    intro h
    obtain ⟨y, hy⟩ := h x (List.mem_cons_self ..)
    obtain ⟨ys, hys⟩ := ih (fun z hz => h z (List.mem_cons_of_mem _ hz))
    exact ⟨y :: ys, hy, hys⟩

theorem elementwise_map_left {α β γ : Type} (R : γ → β → Prop) (f : α → γ) : ∀ (a : List α) (b : List β),
    Elementwise (fun x y => R (f x) y) a b → Elementwise R (a.map f) b := by
  intro a
  induction a with
  | nil =>
    intro b h
    cases b with
    | nil => trivial
    | cons b bs => exact absurd h (by simp [Elementwise])
  | cons a as ih =>
    intro b h
    cases b with
    | nil => exact absurd h (by simp [Elementwise])
    | cons b bs => exact ⟨h.1, ih bs h.2⟩

/-- elementwise related lists map to equal lists under functions the relation equates -/
theorem elementwise_map_eq {α β γ : Type} (R : α → β → Prop) (f : α → γ) (g : β → γ)
    (hfg : ∀ a b, R a b → f a = g b) : ∀ (a : List α) (b : List β), Elementwise R a b →
    a.map f = b.map g := by
  intro a
  induction a with
  | nil =>
    intro b h
    cases b with
    | nil => rfl
    | cons b bs => exact absurd h (by simp [Elementwise])
  | cons a as ih =>
    intro b h
    cases b with
    | nil => exact absurd h (by simp [Elementwise])
    | cons b bs => simp only [List.map_cons, hfg _ _ h.1, ih bs h.2]

theorem elementwise_flatMap {α β γ δ : Type} (R : α → β → Prop) (S : γ → δ → Prop)
    (f : α → List γ) (g : β → List δ) (hfg : ∀ a b, R a b → Elementwise S (f a) (g b)) :
    ∀ (a : List α) (b : List β), Elementwise R a b → Elementwise S (a.flatMap f) (b.flatMap g) := by
  intro a
  induction a with
  | nil =>
    intro b h
    cases b with
    | nil => trivial
    | cons b bs => exact absurd h (by simp [Elementwise])
  | cons a as ih =>
    intro b h
    cases b with
    | nil => exact absurd h (by simp [Elementwise])
    | cons b bs =>
      simp only [List.flatMap_cons]
      exact elementwise_append S _ _ _ _ (hfg _ _ h.1) (ih bs h.2)

/-! ### reaching a child page -/

theorem kind_isTable (table : Bool) (T : TTree) : (T.kind table).isTable = table := by
  cases T <;> cases table <;> rfl

theorem kind_isInterior_leaf (table : Bool) (p : Nat) (cells : List CellSpec) :
    ((TTree.leaf p cells).kind table).isInterior = false := by cases table <;> rfl

theorem kind_isInterior_interior (table : Bool) (p : Nat) (ch : List (TTree × Key)) (rm : TTree) :
    ((TTree.interior p ch rm).kind table).isInterior = true := by cases table <;> rfl

/-- the page laid out at the root of a laid-out tree -/
theorem root_served (v : VersionIf) (table : Bool) (T : TTree) (h : TreeLaidOut v table T) :
    ∃ L, L.kind = T.kind table ∧ L.cells = T.rootCells ∧ PageServed v T.page L := by
  cases h with
  | leaf p cells L h1 h2 h3 => exact ⟨L, h1, h2, h3⟩
  | interior p ch rm L h1 h2 _ h4 _ _ _ _ => exact ⟨L, h1, h2, h4⟩

/-- the caller reads the first byte of a child page (never page 1) and picks the child's class -/
theorem first_byte (v : VersionIf) (hu : 512 ≤ v.pageSize) (n : Nat) (L : PageLayout)
    (hps : PageServed v n L) (h2 : 2 ≤ n) :
    ∃ fb, v.getData n 0 (some 1) = .ok fb ∧ childClass L.kind.isTable fb = some L.kind := by
  obtain ⟨bytes, hs, hl, hoff, _⟩ := hps
  rw [if_neg (by omega)] at hoff
  obtain ⟨fb, hfb, hfl, hfs⟩ := hs.part 0 1 (by omega) (by omega)
  have hh := hl.header
  rw [hoff] at hh
  unfold Spec.pageHeaderBytes at hh
  rw [List.append_assoc, List.append_assoc, List.append_assoc, List.append_assoc] at hh
  obtain ⟨h0, _⟩ := storedAt_append _ _ _ _ hh
  unfold StoredAt at h0
  simp only [List.length_singleton] at h0
  rw [h0] at hfl
  have hrd : fb.rd 0 = Spec.typeByte L.kind := by
    have h1 : 0 < fb.toList.length := by rw [hfl]; simp
    have := toList_getElem fb 0 h1
    rw [← this]
    simp only [hfl, List.getElem_cons_zero]
  refine ⟨fb, hfb, ?_⟩
  unfold childClass
  rw [if_neg (by omega)]
  simp only [hrd]
  cases L.kind <;> simp [Spec.typeByte, PageType.isTable]

theorem le_foldl_max (l : List Nat) (a : Nat) : a ≤ l.foldl max a ∧ ∀ x ∈ l, x ≤ l.foldl max a := by
  induction l generalizing a with
  | nil => exact ⟨Nat.le_refl _, fun x hx => by simp at hx⟩
  | cons y ys ih =>
    simp only [List.foldl_cons]
    obtain ⟨h1, h2⟩ := ih (max a y)
    refine ⟨by omega, fun x hx => ?_⟩
    rcases List.mem_cons.1 hx with rfl | hx
    · omega
    · exact h2 x hx

theorem hoff_root (n : Nat) (L : PageLayout) (h : L.hoff = if n = 1 then 100 else 0) :
    L.hoff = 100 → n = 1 := by
  intro h100
  by_cases hn : n = 1
  · exact hn
  · rw [if_neg hn] at h; omega

/-! ### the tree -/

/-- **Stage 2.**  Every laid-out tree is constructed, given `T.frames` stack frames, into the
list of its pages in construction order, each page holding exactly its cells. -/
theorem tree_nodes (v : VersionIf) (hu : 512 ≤ v.pageSize) (hu2 : v.pageSize ≤ 65536) (table : Bool) :
    ∀ (fuel : Nat) (T : TTree), TreeLaidOut v table T → T.frames ≤ fuel →
      ∃ t, parseBTree v fuel T.page (T.kind table) = .ok t ∧
        Elementwise (NodeReported v.pageSize) (T.nodes table) t := by
  intro fuel
  induction fuel using Nat.strongRecOn with
  | _ fuel ih =>
    intro T hT hf
    cases hT with
    | leaf p cells L hk hc hps =>
      rw [TTree.frames] at hf
      obtain ⟨k, rfl⟩ : ∃ k, fuel = k + 1 := ⟨fuel - 1, by omega⟩
      obtain ⟨bytes, hs, hl, hoff, hv⟩ := hps
      obtain ⟨pg, hpg, hrep⟩ := leaf_page_roundtrip v hu hu2 p bytes L k hs hl (hoff_root p L hoff) hv
        (by rw [hk]; exact kind_isInterior_leaf table p cells)
      rw [hk] at hpg
      refine ⟨[pg], hpg, ?_⟩
      rw [TTree.nodes]
      refine ⟨⟨hrep.number, by rw [hrep.ptype, hk], ?_⟩, trivial⟩
      have := hrep.cells
      rw [hc] at this
      exact this
    | interior p ch rm L hk hc hrm hps hch2 hch hrm2 hrmT =>
      rw [TTree.frames] at hf
      obtain ⟨k, rfl⟩ : ∃ k, fuel = k + 1 := ⟨fuel - 1, by omega⟩
      have hfm := le_foldl_max (ch.map fun c => cellDescentFrames + c.1.frames) 0
      simp only [rightMostDescentFrames, cellDescentFrames] at hf hfm
      -- the right-most subtree
      obtain ⟨rsub, hrp, hrn⟩ := ih (k - 1) (by omega) rm hrmT (by omega)
      obtain ⟨Lr, hLrk, _, hLrs⟩ := root_served v table rm hrmT
      obtain ⟨fbr, hfbr, hccr⟩ := first_byte v hu rm.page Lr hLrs hrm2
      rw [hLrk, kind_isTable] at hccr
      -- the left subtrees of the cells
      obtain ⟨subs, hsubs⟩ := exists_elementwise
        (fun (c : TTree × Key) (sub : List BPage) =>
          Descends v k 3 table c.1.page sub ∧ Elementwise (NodeReported v.pageSize) (c.1.nodes table) sub)
        ch (by
          intro c hcm
          have hcf : 3 + c.1.frames ≤ k := by
            have := hfm.2 (3 + c.1.frames) (List.mem_map.2 ⟨c, hcm, rfl⟩)
            omega
          obtain ⟨sub, hsp, hsn⟩ := ih (k - 3) (by omega) c.1 (hch c hcm) (by omega)
          obtain ⟨Lc, hLck, _, hLcs⟩ := root_served v table c.1 (hch c hcm)
          obtain ⟨fbc, hfbc, hccc⟩ := first_byte v hu c.1.page Lc hLcs (hch2 c hcm)
          rw [hLck, kind_isTable] at hccc
          exact ⟨sub, ⟨fbc, _, hfbc, hccc, by omega, hsp⟩, hsn⟩)
      have hsl := elementwise_length _ _ _ hsubs
      obtain ⟨bytes, hs, hl, hoff, hv⟩ := hps
      have hint := kind_isInterior_interior table p ch rm
      have hcl : L.cells.length = ch.length := by rw [hc, TTree.rootCells, List.length_map]
      obtain ⟨me, hme, hrep⟩ := page_parse v hu hu2 p bytes L k hs hl (hoff_root p L hoff) hv subs
        (by omega)
        (by
          intro i hi
          have hi1 : i < ch.length := by omega
          have hi2 : i < subs.length := by omega
          have hlc : L.cells[i].leftChild = some (ch[i].1.page) := by
            have : L.cells[i] = ch[i].2.cell ch[i].1.page := by
              simp only [hc, TTree.rootCells, List.getElem_map]
            rw [this]
            cases ch[i].2 <;> rfl
          rw [hlc]
          simp only
          rw [hk, kind_isTable]
          exact (elementwise_getElem _ _ _ hsubs i hi1 hi2).1)
        rsub
        (by
          intro _
          rw [hk, kind_isTable, hrm]
          exact ⟨fbr, _, hfbr, hccr, by omega, hrp⟩)
      rw [hk, hint] at hme
      simp only [if_true] at hme
      refine ⟨_, hme, ?_⟩
      rw [TTree.nodes]
      refine ⟨⟨hrep.number, by rw [hrep.ptype, hk], ?_⟩, ?_⟩
      · have := hrep.cells
        rw [hc] at this
        exact this
      · apply elementwise_append _ _ _ _ _ hrn
        apply elementwise_flatten
        apply elementwise_map_left
        exact elementwise_mono _ _ (fun _ _ h => h.2) _ _ hsubs


/-! ### structural induction on abstract trees, and the traversal functions -/

theorem TTree.induct (motive : TTree → Prop)
    (leaf : ∀ p cells, motive (.leaf p cells))
    (interior : ∀ p ch rm, (∀ c ∈ ch, motive c.1) → motive rm → motive (.interior p ch rm)) :
    ∀ T, motive T
  | .leaf p cells => leaf p cells
  | .interior p ch rm =>
    interior p ch rm (fun c _ => TTree.induct motive leaf interior c.1) (TTree.induct motive leaf interior rm)
termination_by T => sizeOf T
decreasing_by
  all_goals simp_wf
  · have := TTree.child_lt ‹_ ∈ _›; omega
  · omega

theorem flatMap_flatten {α β : Type} (f : α → List β) (l : List (List α)) :
    l.flatten.flatMap f = (l.map (fun x => x.flatMap f)).flatten := by
  induction l with
  | nil => rfl
  | cons x xs ih => simp only [List.flatten_cons, List.flatMap_append, List.map_cons, ih]

/-- the leaf cells are the cells of the leaf pages among the nodes -/
theorem leafCells_nodes (table : Bool) : ∀ T : TTree,
    T.leafCells = (T.nodes table).flatMap (fun nd => if nd.2.1.isInterior then [] else nd.2.2) := by
  intro T
  induction T using TTree.induct with
  | leaf p cells =>
    rw [TTree.leafCells, TTree.nodes]
    simp only [List.flatMap_cons, List.flatMap_nil, List.append_nil, kind_isInterior_leaf,
      Bool.false_eq_true, if_false]
  | interior p ch rm ihc ihr =>
    rw [TTree.leafCells, TTree.nodes]
    simp only [List.flatMap_cons, List.flatMap_append, kind_isInterior_interior, if_true,
      List.nil_append, ← ihr, flatMap_flatten, List.map_map]
    congr 2
    apply List.map_congr_left
    intro c hc
    exact ihc c hc

/-- all cells are the cells of all nodes -/
theorem allCells_nodes (table : Bool) : ∀ T : TTree,
    T.allCells = (T.nodes table).flatMap (fun nd => nd.2.2) := by
  intro T
  induction T using TTree.induct with
  | leaf p cells =>
    rw [TTree.allCells, TTree.nodes]
    simp only [List.flatMap_cons, List.flatMap_nil, List.append_nil]
  | interior p ch rm ihc ihr =>
    rw [TTree.allCells, TTree.nodes]
    simp only [List.flatMap_cons, List.flatMap_append, ← ihr, flatMap_flatten, List.map_map,
      List.append_assoc]
    congr 3
    apply List.map_congr_left
    intro c hc
    exact ihc c hc

/-- the page numbers listed by `nodes` do not depend on the b-tree family -/
theorem nodes_numbers (table : Bool) : ∀ T : TTree,
    (T.nodes table).map (·.1) = (T.nodes true).map (·.1) := by
  intro T
  induction T using TTree.induct with
  | leaf p cells =>
    rw [TTree.nodes, TTree.nodes]
    rfl
  | interior p ch rm ihc ihr =>
    rw [TTree.nodes, TTree.nodes]
    have hch : ch.map (fun c => (c.1.nodes table).map (·.1)) = ch.map (fun c => (c.1.nodes true).map (·.1)) :=
      List.map_congr_left fun c hc => ihc c hc
    simp only [List.map_cons, List.map_append, List.map_flatten, List.map_map, ihr, Function.comp_def, hch]

theorem pagesDistinct_iff (table : Bool) (T : TTree) :
    T.PagesDistinct ↔ ((T.nodes table).map (·.1)).Nodup := by
  unfold TTree.PagesDistinct
  rw [nodes_numbers table T]

/-- the page numbers of the pages reported for the nodes are the nodes' -/
theorem reported_numbers (u : Nat) (nds : List (Nat × PageType × List CellSpec)) (t : List BPage)
    (h : Elementwise (NodeReported u) nds t) : t.map (·.number) = nds.map (·.1) :=
  (elementwise_map_eq _ (·.1) (·.number) (fun _ _ h => h.1.symm) _ _ h).symm

/-- **Stage 2 for the walk that refuses a page reached twice.**  A laid-out tree whose page
numbers are pairwise distinct is constructed by the repaired code into the same list. -/
theorem tree_nodes_walk (v : VersionIf) (hu : 512 ≤ v.pageSize) (hu2 : v.pageSize ≤ 65536) (table : Bool)
    (fuel : Nat) (T : TTree) (hT : TreeLaidOut v table T) (hf : T.frames ≤ fuel) (hpd : T.PagesDistinct) :
    ∃ t, parseBTreeW v fuel T.page (T.kind table) [] = .ok t ∧
      Elementwise (NodeReported v.pageSize) (T.nodes table) t := by
  obtain ⟨t, ht, hn⟩ := tree_nodes v hu hu2 table fuel T hT hf
  refine ⟨t, TreeWalk.parseBTreeW_of_pure v fuel _ _ [] t ht ?_ (fun _ _ hm => nomatch hm), hn⟩
  rw [reported_numbers _ _ _ hn]
  exact (pagesDistinct_iff table T).mp hpd

/-! ### corollaries -/

/-- what is reported for a cell determines the row: rowid and column values -/
theorem reported_row (u : Nat) (s : CellSpec) (c : Cell) (h : s.ReportedAs u c) :
    Spec.cellRow c = s.row := by
  unfold Spec.cellRow CellSpec.row
  rw [h.rowid, h.record]
  cases s.cols <;> rfl

theorem leaf_cells_reported (u : Nat) (table : Bool) (T : TTree) (t : List BPage)
    (h : Elementwise (NodeReported u) (T.nodes table) t) :
    Elementwise (fun s c => CellSpec.ReportedAs u s c) T.leafCells (leafCells t) := by
  rw [leafCells_nodes table T]
  unfold leafCells
  apply elementwise_flatMap _ _ _ _ _ _ _ h
  intro nd pg hnp
  obtain ⟨_, h2, h3⟩ := hnp
  rw [h2]
  split
  · trivial
  · exact h3

theorem all_cells_reported (u : Nat) (table : Bool) (T : TTree) (t : List BPage)
    (h : Elementwise (NodeReported u) (T.nodes table) t) :
    Elementwise (fun s c => CellSpec.ReportedAs u s c) T.allCells (t.flatMap (·.cells)) := by
  rw [allCells_nodes table T]
  apply elementwise_flatMap _ _ _ _ _ _ _ h
  intro nd pg hnp
  exact hnp.2.2

/-- `aggregate_leaf_cells`: the count is the number of leaf cells; when the digests are pairwise
distinct nothing is dropped and the dictionary lists the cells in traversal order -/
theorem aggregate_fold : ∀ (l : List Cell) (n : Nat) (d : List (List Nat × Cell)) (acc : List (List Nat)),
    let r := l.foldl
      (fun (st : Nat × List (List Nat × Cell) × List (List Nat)) c =>
        let (n, d, acc) := st
        if acc.contains c.digest then (n + 1, d, acc)
        else (n + 1, d ++ [(c.digest, c)], acc ++ [c.digest]))
      (n, d, acc)
    r.1 = n + l.length ∧
      ((acc ++ l.map (·.digest)).Nodup → r.2.1 = d ++ l.map (fun c => (c.digest, c)) ∧
        r.2.2 = acc ++ l.map (·.digest)) := by
  intro l
  induction l with
  | nil => intro n d acc; simp
  | cons c cs ih =>
    intro n d acc
    simp only [List.foldl_cons]
    by_cases hc : acc.contains c.digest = true
    · simp only [hc, if_true]
      obtain ⟨h1, _⟩ := ih (n + 1) d acc
      refine ⟨by rw [h1]; simp only [List.length_cons]; omega, fun hnd => ?_⟩
      exfalso
      rw [List.contains_iff_mem] at hc
      rw [List.map_cons, List.nodup_append] at hnd
      exact hnd.2.2 _ hc _ (List.mem_cons_self ..) rfl
    · simp only [hc, if_false, Bool.false_eq_true]
      obtain ⟨h1, h2⟩ := ih (n + 1) (d ++ [(c.digest, c)]) (acc ++ [c.digest])
      refine ⟨by rw [h1]; simp only [List.length_cons]; omega, fun hnd => ?_⟩
      have := h2 (by simpa only [List.map_cons, List.append_assoc, List.singleton_append] using hnd)
      simpa only [List.map_cons, List.append_assoc, List.singleton_append] using this

theorem aggregate_spec (pages : List BPage) :
    (aggregateLeafCells pages []).1 = (leafCells pages).length ∧
      (((leafCells pages).map (·.digest)).Nodup →
        (aggregateLeafCells pages []).2.1 = (leafCells pages).map (fun c => (c.digest, c))) := by
  have := aggregate_fold (leafCells pages) 0 [] []
  simp only [Nat.zero_add, List.nil_append] at this
  exact ⟨this.1, fun h => (this.2 h).1⟩


/-! ### `Version.get_b_tree_root_page` -/

theorem byte_served (v : VersionIf) (n : Nat) (bytes : List Nat) (hs : Spec.Serves v n bytes)
    (off x : Nat) (hst : StoredAt bytes off [x]) :
    ∃ fb, v.getData n off (some 1) = .ok fb ∧ fb.size = 1 ∧ fb.rd 0 = x := by
  obtain ⟨_, _, hle⟩ := storedAt_split bytes off [x] (by simp) hst
  simp only [List.length_singleton] at hle
  obtain ⟨fb, hfb, hfl, hfs⟩ := hs.part off 1 (by omega) (by rw [← hs.size]; exact hle)
  unfold StoredAt at hst
  simp only [List.length_singleton] at hst
  rw [hst] at hfl
  refine ⟨fb, hfb, hfs, ?_⟩
  have h1 : 0 < fb.toList.length := by rw [hfl]; simp
  have := toList_getElem fb 0 h1
  rw [← this]
  simp only [hfl, List.getElem_cons_zero]

/-- the root dispatcher constructs the page with the class the page's type byte names (on page 1
the byte after the database header), the walk starting with an empty set -/
theorem root_dispatch (v : VersionIf) (n : Nat) (L : PageLayout) (hps : PageServed v n L) (fuel : Nat) :
    getBTreeRoot v fuel n = parseBTreeW v fuel n L.kind [] := by
  obtain ⟨bytes, hs, hl, hoff, _⟩ := hps
  have hh := hl.header
  unfold Spec.pageHeaderBytes at hh
  rw [List.append_assoc, List.append_assoc, List.append_assoc, List.append_assoc] at hh
  obtain ⟨h0, _⟩ := storedAt_append _ _ _ _ hh
  by_cases hn : n = 1
  · subst hn
    rw [if_pos rfl] at hoff
    rcases hl.dbHeader with h | ⟨_, hhead, htab⟩
    · omega
    rw [hoff] at h0
    obtain ⟨fb, hfb, hfs, hfr⟩ := byte_served v 1 bytes hs 0 _ (head_stored _ _ hhead)
    obtain ⟨fb2, hfb2, hfs2, hfr2⟩ := byte_served v 1 bytes hs 100 _ h0
    unfold getBTreeRoot
    simp only [Generated.PAGE_TYPE_LENGTH, Generated.SQLITE_DATABASE_HEADER_LENGTH,
      Generated.SQLITE_MASTER_SCHEMA_ROOT_PAGE, hfb, hfs, hfr, bind, Except.bind, and_self, if_true,
      ne_eq, not_true_eq_false, if_false, hfb2, hfs2]
    revert htab hfr2
    generalize L.kind = k
    intro htab hfr2
    cases k <;> simp_all [Spec.typeByte, PageType.isTable, pure, Except.pure]
  · rw [if_neg hn] at hoff
    rw [hoff] at h0
    obtain ⟨fb, hfb, hfs, hfr⟩ := byte_served v n bytes hs 0 _ h0
    have h53 := typeByte_ne_53 L.kind
    unfold getBTreeRoot
    simp only [Generated.PAGE_TYPE_LENGTH, hfb, hfs, hfr, bind, Except.bind, h53, and_false, if_false,
      pure, Except.pure, ne_eq, not_true_eq_false]
    generalize L.kind = k
    cases k <;> simp [Spec.typeByte]


/-- the same for the dispatcher of the code before the repair -/
theorem root_dispatch_pure (v : VersionIf) (n : Nat) (L : PageLayout) (hps : PageServed v n L) (fuel : Nat) :
    getBTreeRootPure v fuel n = parseBTree v fuel n L.kind := by
  obtain ⟨bytes, hs, hl, hoff, _⟩ := hps
  have hh := hl.header
  unfold Spec.pageHeaderBytes at hh
  rw [List.append_assoc, List.append_assoc, List.append_assoc, List.append_assoc] at hh
  obtain ⟨h0, _⟩ := storedAt_append _ _ _ _ hh
  by_cases hn : n = 1
  · subst hn
    rw [if_pos rfl] at hoff
    rcases hl.dbHeader with h | ⟨_, hhead, htab⟩
    · omega
    rw [hoff] at h0
    obtain ⟨fb, hfb, hfs, hfr⟩ := byte_served v 1 bytes hs 0 _ (head_stored _ _ hhead)
    obtain ⟨fb2, hfb2, hfs2, hfr2⟩ := byte_served v 1 bytes hs 100 _ h0
    unfold getBTreeRootPure
    simp only [Generated.PAGE_TYPE_LENGTH, Generated.SQLITE_DATABASE_HEADER_LENGTH,
      Generated.SQLITE_MASTER_SCHEMA_ROOT_PAGE, hfb, hfs, hfr, bind, Except.bind, and_self, if_true,
      ne_eq, not_true_eq_false, if_false, hfb2, hfs2]
    revert htab hfr2
    generalize L.kind = k
    intro htab hfr2
    cases k <;> simp_all [Spec.typeByte, PageType.isTable, pure, Except.pure]
  · rw [if_neg hn] at hoff
    rw [hoff] at h0
    obtain ⟨fb, hfb, hfs, hfr⟩ := byte_served v n bytes hs 0 _ h0
    have h53 := typeByte_ne_53 L.kind
    unfold getBTreeRootPure
    simp only [Generated.PAGE_TYPE_LENGTH, hfb, hfs, hfr, bind, Except.bind, h53, and_false, if_false,
      pure, Except.pure, ne_eq, not_true_eq_false]
    generalize L.kind = k
    cases k <;> simp [Spec.typeByte]


/-! ### digests of table leaf cells are distinct when the rowids are -/

theorem putVarint_prefix (a b : Nat) (ha : a < 2 ^ 64) (hb : b < 2 ^ 64) (x y : List Nat)
    (h : Spec.putVarint a ++ x = Spec.putVarint b ++ y) : a = b ∧ x = y := by
  have h1 := spec_get_put a ha x
  have h2 := spec_get_put b hb y
  rw [h, h2] at h1
  simp only [Option.some.injEq, Prod.mk.injEq] at h1
  obtain ⟨rfl, _⟩ := h1
  exact ⟨rfl, List.append_cancel_left h⟩

theorem toU64_inj (a b : Int) (ha1 : -(2 ^ 63 : Int) ≤ a) (ha2 : a < (2 ^ 63 : Int))
    (hb1 : -(2 ^ 63 : Int) ≤ b) (hb2 : b < (2 ^ 63 : Int)) (h : Spec.toU64 a = Spec.toU64 b) : a = b := by
  rw [← toI64_toU64 a ha1 ha2, ← toI64_toU64 b hb1 hb2, h]

/-- digest input of a cell: its on-page bytes followed by its overflow content -/
def specDigest (u : Nat) (s : CellSpec) : List Nat := s.bytes u ++ s.overflowBytes u

theorem table_leaf_digest_inj (u : Nat) (a b : CellSpec) (ha : a.kind = .tableLeaf) (hb : b.kind = .tableLeaf)
    (hra : ∀ r, a.rowid = some r → -(2 ^ 63 : Int) ≤ r ∧ r < (2 ^ 63 : Int))
    (hrb : ∀ r, b.rowid = some r → -(2 ^ 63 : Int) ≤ r ∧ r < (2 ^ 63 : Int))
    (hpa : a.payload.length < 2 ^ 64) (hpb : b.payload.length < 2 ^ 64)
    (h : specDigest u a = specDigest u b) : a.rowid = b.rowid := by
  cases a <;> simp only [CellSpec.kind, reduceCtorEq] at ha
  cases b <;> simp only [CellSpec.kind, reduceCtorEq] at hb
  rename_i r1 c1 o1 r2 c2 o2
  unfold specDigest at h
  simp only [CellSpec.bytes, Spec.writeTableLeafCell, List.append_assoc] at h
  have hpa' : (Spec.encodeRecord c1).length < 2 ^ 64 := hpa
  have hpb' : (Spec.encodeRecord c2).length < 2 ^ 64 := hpb
  obtain ⟨_, h'⟩ := putVarint_prefix _ _ hpa' hpb' _ _ h
  obtain ⟨h'', _⟩ := putVarint_prefix _ _ (toU64_lt _) (toU64_lt _) _ _ h'
  obtain ⟨a1, a2⟩ := hra r1 rfl
  obtain ⟨b1, b2⟩ := hrb r2 rfl
  simp only [CellSpec.rowid, toU64_inj r1 r2 a1 a2 b1 b2 h'']

theorem table_digests_nodup (u : Nat) (cells : List CellSpec) (hk : ∀ c ∈ cells, c.kind = .tableLeaf)
    (hr : ∀ c ∈ cells, ∀ r, c.rowid = some r → -(2 ^ 63 : Int) ≤ r ∧ r < (2 ^ 63 : Int))
    (hp : ∀ c ∈ cells, c.payload.length < 2 ^ 64)
    (hnd : (cells.map (·.rowid)).Nodup) : (cells.map (specDigest u)).Nodup := by
  unfold List.Nodup at hnd ⊢
  rw [List.pairwise_map] at hnd ⊢
  apply List.Pairwise.imp_of_mem _ hnd
  intro a b ha hb hne hd
  exact hne (table_leaf_digest_inj u a b (hk a ha) (hk b hb) (hr a ha) (hr b hb) (hp a ha) (hp b hb) hd)

/-- the leaf cells of a laid-out tree are valid cells of the leaf kind of its family -/
theorem leaf_cells_valid (v : VersionIf) (table : Bool) (T : TTree) (hT : TreeLaidOut v table T) :
    ∀ c ∈ T.leafCells, c.kind = (if table then .tableLeaf else .indexLeaf) ∧ c.Valid v := by
  induction hT with
  | leaf p cells L hk hc hps =>
    intro c hcm
    rw [TTree.leafCells] at hcm
    obtain ⟨bytes, _, hl, _, hv⟩ := hps
    rw [← hc] at hcm
    refine ⟨?_, hv c hcm⟩
    rw [hl.kinds c hcm, hk]
    cases table <;> rfl
  | interior p ch rm L _ _ _ _ _ _ _ _ ihc ihr =>
    intro c hcm
    rw [TTree.leafCells, List.mem_append] at hcm
    rcases hcm with h | h
    · exact ihr c h
    · rw [List.mem_flatten] at h
      obtain ⟨l, hl, hcl⟩ := h
      rw [List.mem_map] at hl
      obtain ⟨x, hx, rfl⟩ := hl
      exact ihc x hx c hcl

theorem valid_payload_lt (v : VersionIf) (c : CellSpec) (hv : c.Valid v) : c.payload.length < 2 ^ 64 := by
  unfold CellSpec.payload
  cases hc : c.cols with
  | none => simp
  | some cols =>
    have := (hv.1 cols hc).2.2
    have h2 : (2 : Nat) ^ 63 < 2 ^ 64 := by decide
    simp only
    omega

/-- **C01, tree level.**  Every row of a laid-out table b-tree is recovered, through
`get_b_tree_root_page` and `aggregate_leaf_cells`, with its rowid and column values. -/
theorem table_tree_rows (v : VersionIf) (hu : 512 ≤ v.pageSize) (hu2 : v.pageSize ≤ 65536)
    (T : TTree) (hT : TreeLaidOut v true T) (fuel : Nat) (hf : T.frames ≤ fuel)
    (hpd : T.PagesDistinct) (hnd : (T.leafCells.map (·.rowid)).Nodup) :
    ∃ t, getBTreeRoot v fuel T.page = .ok t ∧
      Elementwise (fun s c => CellSpec.ReportedAs v.pageSize s c) T.leafCells (leafCells t) ∧
      (leafCells t).map Spec.cellRow = T.leafCells.map CellSpec.row ∧
      (aggregateLeafCells t []).1 = T.leafCells.length ∧
      (aggregateLeafCells t []).2.1.map (fun e => Spec.cellRow e.2) = T.leafCells.map CellSpec.row := by
  obtain ⟨t, ht, hn⟩ := tree_nodes_walk v hu hu2 true fuel T hT hf hpd
  obtain ⟨L, hk, _, hps⟩ := root_served v true T hT
  have hrep := leaf_cells_reported v.pageSize true T t hn
  have hrows := (elementwise_map_eq _ CellSpec.row Spec.cellRow
    (fun s c h => (reported_row v.pageSize s c h).symm) _ _ hrep).symm
  have hval := leaf_cells_valid v true T hT
  have hdig : (leafCells t).map (·.digest) = T.leafCells.map (specDigest v.pageSize) :=
    (elementwise_map_eq _ (specDigest v.pageSize) (·.digest) (fun s c h => h.digest.symm) _ _ hrep).symm
  have hdn : ((leafCells t).map (·.digest)).Nodup := by
    rw [hdig]
    exact table_digests_nodup v.pageSize T.leafCells (fun c hc => (hval c hc).1)
      (fun c hc => (hval c hc).2.2.1) (fun c hc => valid_payload_lt v c (hval c hc).2) hnd
  obtain ⟨hcount, hdict⟩ := aggregate_spec t
  refine ⟨t, by rw [root_dispatch v T.page L hps fuel, hk]; exact ht, hrep, hrows, ?_, ?_⟩
  · rw [hcount, ← elementwise_length _ _ _ hrep]
  · rw [hdict hdn, List.map_map]
    exact hrows

/-- **C14, tree level.**  Every entry of a laid-out index b-tree — the cells of all pages,
interior pages included — is recovered with its column values. -/
theorem index_tree_entries (v : VersionIf) (hu : 512 ≤ v.pageSize) (hu2 : v.pageSize ≤ 65536)
    (T : TTree) (hT : TreeLaidOut v false T) (fuel : Nat) (hf : T.frames ≤ fuel) (hpd : T.PagesDistinct) :
    ∃ t, getBTreeRoot v fuel T.page = .ok t ∧
      Elementwise (fun s c => CellSpec.ReportedAs v.pageSize s c) T.allCells (t.flatMap (·.cells)) ∧
      (t.flatMap (·.cells)).map Spec.cellRow = T.allCells.map CellSpec.row ∧
      Elementwise (fun s c => CellSpec.ReportedAs v.pageSize s c) T.leafCells (leafCells t) ∧
      (aggregateLeafCells t []).1 = T.leafCells.length := by
  obtain ⟨t, ht, hn⟩ := tree_nodes_walk v hu hu2 false fuel T hT hf hpd
  obtain ⟨L, hk, _, hps⟩ := root_served v false T hT
  have hall := all_cells_reported v.pageSize false T t hn
  have hrep := leaf_cells_reported v.pageSize false T t hn
  refine ⟨t, by rw [root_dispatch v T.page L hps fuel, hk]; exact ht, hall, ?_, hrep, ?_⟩
  · exact (elementwise_map_eq _ CellSpec.row Spec.cellRow
      (fun s c h => (reported_row v.pageSize s c h).symm) _ _ hall).symm
  · rw [(aggregate_spec t).1, ← elementwise_length _ _ _ hrep]


/-! ### the leaf page instances with the rows spelled out -/

theorem leaf_page_rows (v : VersionIf) (hu : 512 ≤ v.pageSize) (hu2 : v.pageSize ≤ 65536)
    (n : Nat) (bytes : List Nat) (L : PageLayout) (fuel : Nat)
    (hs : Spec.Serves v n bytes) (hl : PageLaidOut v.pageSize bytes L) (hn : L.hoff = 100 → n = 1)
    (hv : ∀ c ∈ L.cells, c.Valid v) (hleaf : L.kind.isInterior = false) :
    ∃ pg, parseBTree v (fuel + 1) n L.kind = .ok [pg] ∧ L.ReportedAs v.pageSize n pg ∧
      pg.cells.map Spec.cellRow = L.cells.map CellSpec.row := by
  obtain ⟨pg, h1, h2⟩ := leaf_page_roundtrip v hu hu2 n bytes L fuel hs hl hn hv hleaf
  exact ⟨pg, h1, h2, (elementwise_map_eq _ CellSpec.row Spec.cellRow
    (fun s c h => (reported_row v.pageSize s c h).symm) _ _ h2.cells).symm⟩

theorem table_leaf_page_rows (v : VersionIf) (hu : 512 ≤ v.pageSize) (hu2 : v.pageSize ≤ 65536)
    (n : Nat) (bytes : List Nat) (L : PageLayout) (fuel : Nat)
    (hs : Spec.Serves v n bytes) (hl : PageLaidOut v.pageSize bytes L) (hn : L.hoff = 100 → n = 1)
    (hv : ∀ c ∈ L.cells, c.Valid v) (hk : L.kind = .tableLeaf) :
    ∃ pg, parseBTree v (fuel + 1) n .tableLeaf = .ok [pg] ∧ L.ReportedAs v.pageSize n pg ∧
      pg.cells.map Spec.cellRow = L.cells.map CellSpec.row := by
  have := leaf_page_rows v hu hu2 n bytes L fuel hs hl hn hv (by rw [hk]; rfl)
  rwa [hk] at this

theorem index_leaf_page_entries (v : VersionIf) (hu : 512 ≤ v.pageSize) (hu2 : v.pageSize ≤ 65536)
    (n : Nat) (bytes : List Nat) (L : PageLayout) (fuel : Nat)
    (hs : Spec.Serves v n bytes) (hl : PageLaidOut v.pageSize bytes L) (hn : L.hoff = 100 → n = 1)
    (hv : ∀ c ∈ L.cells, c.Valid v) (hk : L.kind = .indexLeaf) :
    ∃ pg, parseBTree v (fuel + 1) n .indexLeaf = .ok [pg] ∧ L.ReportedAs v.pageSize n pg ∧
      pg.cells.map Spec.cellRow = L.cells.map CellSpec.row := by
  have := leaf_page_rows v hu hu2 n bytes L fuel hs hl hn hv (by rw [hk]; rfl)
  rwa [hk] at this

end SqliteDissect.Proofs.TreeParse
