import SqliteDissect.Model.Header
import SqliteDissect.Spec.HeaderFmt
namespace SqliteDissect.Proofs.Header
end SqliteDissect.Proofs.Header
