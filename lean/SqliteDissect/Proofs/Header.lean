import SqliteDissect.Model.Header
import SqliteDissect.Spec.HeaderFmt
namespace SqliteDissect.Proofs.Header
open SqliteDissect SqliteDissect.Model

theorem ok_bind {α β : Type} (x : α) (f : α → Py β) : ((Except.ok x : Py α) >>= f) = f x := rfl
theorem error_bind {α β : Type} (e : PyErr) (f : α → Py β) :
    ((Except.error e : Py α) >>= f) = Except.error e := rfl
theorem map_ok {α β : Type} (x : α) (f : α → β) : (f <$> (Except.ok x : Py α)) = Except.ok (f x) := rfl
theorem pure_eq {α : Type} (x : α) : (pure x : Py α) = Except.ok x := rfl

/-! ### bridge lemmas `Buf.ofList` ↔ list functions -/

theorem size_ofList (bs : List Nat) : (Buf.ofList bs).size = bs.length := rfl

theorem rd_ofList (bs : List Nat) (i : Nat) : (Buf.ofList bs).rd i = bs.getD i 0 := rfl

theorem beN_ofList (bs : List Nat) (off n : Nat) :
    (Buf.ofList bs).beN off n = Spec.be bs off n := by
  induction n with
  | zero => rfl
  | succ n ih => simp only [Buf.beN, Spec.be, ih, rd_ofList]

theorem u32_ofList (bs : List Nat) (off : Nat) (h : off + 4 ≤ bs.length) :
    (Buf.ofList bs).u32 off = .ok (Spec.be bs off 4) := by
  simp only [Buf.u32, size_ofList, h, if_true, beN_ofList]

theorem u16_ofList (bs : List Nat) (off : Nat) (h : off + 2 ≤ bs.length) :
    (Buf.ofList bs).u16 off = .ok (Spec.be bs off 2) := by
  simp only [Buf.u16, size_ofList, h, if_true, beN_ofList]

theorem slice_toList_ofList (bs : List Nat) (lo hi : Nat) (hlo : lo ≤ hi) (hhi : hi ≤ bs.length) :
    ((Buf.ofList bs).slice lo hi).toList = (bs.drop lo).take (hi - lo) := by
  apply List.ext_getElem
  · simp only [Buf.toList, Buf.slice, size_ofList, List.length_map, List.length_range,
      List.length_take, List.length_drop]
    omega
  · intro i h1 h2
    simp only [Buf.toList, Buf.slice, size_ofList, List.length_map, List.length_range] at h1
    simp only [Buf.toList, Buf.slice, size_ofList, List.getElem_map, List.getElem_range,
      rd_ofList, List.getElem_take, List.getElem_drop]
    have : min lo bs.length = lo := by omega
    rw [this]
    have hlt : lo + i < bs.length := by omega
    simp [List.getD_eq_getElem?_getD, hlt]

/-! ### frame header -/

theorem frame_ok (bs : List Nat) (hl : bs.length = 24) :
    parseFrameHeader (Buf.ofList bs) =
      .ok ⟨Spec.be bs 0 4, Spec.be bs 4 4, Spec.be bs 8 4, Spec.be bs 12 4, Spec.be bs 16 4,
        Spec.be bs 20 4⟩ := by
  unfold parseFrameHeader
  rw [u32_ofList bs 0 (by omega), u32_ofList bs 4 (by omega), u32_ofList bs 8 (by omega),
    u32_ofList bs 12 (by omega), u32_ofList bs 16 (by omega), u32_ofList bs 20 (by omega)]
  simp [size_ofList, hl]
  rfl

theorem frame_len (bs : List Nat) (h : FrameHeader)
    (hp : parseFrameHeader (Buf.ofList bs) = .ok h) : bs.length = 24 := by
  by_cases hl : bs.length = 24
  · exact hl
  · unfold parseFrameHeader at hp
    simp [size_ofList, hl] at hp

theorem frame_fields_at_offsets (bs : List Nat) (h : FrameHeader)
    (hp : parseFrameHeader (Buf.ofList bs) = .ok h) :
    bs.length = 24 ∧ h.pageNumber = Spec.be bs 0 4 ∧ h.sizeAfterCommit = Spec.be bs 4 4 ∧
    h.salt1 = Spec.be bs 8 4 ∧ h.salt2 = Spec.be bs 12 4 ∧ h.checksum1 = Spec.be bs 16 4 ∧
    h.checksum2 = Spec.be bs 20 4 := by
  have hl := frame_len bs h hp
  rw [frame_ok bs hl] at hp
  cases hp
  exact ⟨hl, rfl, rfl, rfl, rfl, rfl, rfl⟩

theorem frame_accepts (bs : List Nat) (hl : bs.length = 24) :
    ∃ h, parseFrameHeader (Buf.ofList bs) = .ok h := ⟨_, frame_ok bs hl⟩

/-! ### journal header -/

theorem journal_ok (bs : List Nat) (hl : bs.length = 28) :
    parseJournalHeader (Buf.ofList bs) =
      .ok ⟨bs.take 8,
        (if (bs.drop 8).take 4 = [255, 255, 255, 255] then (-1 : Int) else (Spec.be bs 8 4 : Int)),
        Spec.be bs 12 4, Spec.be bs 16 4, Spec.be bs 20 4, Spec.be bs 24 4⟩ := by
  unfold parseJournalHeader
  rw [u32_ofList bs 8 (by omega), u32_ofList bs 12 (by omega), u32_ofList bs 16 (by omega),
    u32_ofList bs 20 (by omega), u32_ofList bs 24 (by omega),
    slice_toList_ofList bs 8 12 (by omega) (by omega),
    slice_toList_ofList bs 0 8 (by omega) (by omega)]
  simp [size_ofList, hl, Generated.ROLLBACK_JOURNAL_HEADER_ALL_CONTENT]
  rfl

theorem journal_len (bs : List Nat) (h : JournalHeader)
    (hp : parseJournalHeader (Buf.ofList bs) = .ok h) : bs.length = 28 := by
  by_cases hl : bs.length = 28
  · exact hl
  · unfold parseJournalHeader at hp
    simp [size_ofList, hl] at hp

theorem journal_fields_at_offsets (bs : List Nat) (h : JournalHeader)
    (hp : parseJournalHeader (Buf.ofList bs) = .ok h) :
    bs.length = 28 ∧ h.headerString = bs.take 8 ∧
    h.pageCount = (if (bs.drop 8).take 4 = [255, 255, 255, 255] then (-1 : Int) else (Spec.be bs 8 4 : Int)) ∧
    h.nonce = Spec.be bs 12 4 ∧ h.initialSize = Spec.be bs 16 4 ∧ h.sectorSize = Spec.be bs 20 4 ∧
    h.pageSize = Spec.be bs 24 4 := by
  have hl := journal_len bs h hp
  rw [journal_ok bs hl] at hp
  cases hp
  exact ⟨hl, rfl, rfl, rfl, rfl, rfl, rfl⟩

theorem journal_accepts (bs : List Nat) (hl : bs.length = 28) :
    ∃ h, parseJournalHeader (Buf.ofList bs) = .ok h := ⟨_, journal_ok bs hl⟩

/-! ### WAL header -/

theorem wal_len (bs : List Nat) (h : WalHeader)
    (hp : parseWalHeader (Buf.ofList bs) = .ok h) : bs.length = 32 := by
  by_cases hl : bs.length = 32
  · exact hl
  · unfold parseWalHeader at hp
    simp [size_ofList, hl] at hp

theorem wal_eq (bs : List Nat) (hl : bs.length = 32) :
    parseWalHeader (Buf.ofList bs) =
      if Spec.be bs 0 4 ≠ 931071619 ∧ Spec.be bs 0 4 ≠ 931071618 then .error .parseError
      else if Spec.be bs 4 4 ≠ 3007000 then .error .parseError
      else .ok ⟨Spec.be bs 0 4, Spec.be bs 4 4, Spec.be bs 8 4, Spec.be bs 12 4, Spec.be bs 16 4,
        Spec.be bs 20 4, Spec.be bs 24 4, Spec.be bs 28 4⟩ := by
  unfold parseWalHeader
  rw [u32_ofList bs 0 (by omega), u32_ofList bs 4 (by omega), u32_ofList bs 8 (by omega),
    u32_ofList bs 12 (by omega), u32_ofList bs 16 (by omega), u32_ofList bs 20 (by omega),
    u32_ofList bs 24 (by omega), u32_ofList bs 28 (by omega)]
  by_cases h1 : ¬Spec.be bs 0 4 = 931071619 ∧ ¬Spec.be bs 0 4 = 931071618
  · simp [size_ofList, hl, h1, ok_bind]
  · by_cases h2 : Spec.be bs 4 4 = 3007000
    · simp [size_ofList, hl, h1, h2, ok_bind, map_ok]
    · simp [size_ofList, hl, h1, h2, ok_bind]

theorem wal_fields_at_offsets (bs : List Nat) (h : WalHeader)
    (hp : parseWalHeader (Buf.ofList bs) = .ok h) :
    h.magic = Spec.be bs 0 4 ∧ h.formatVersion = Spec.be bs 4 4 ∧ h.pageSize = Spec.be bs 8 4 ∧
    h.checkpointSeq = Spec.be bs 12 4 ∧ h.salt1 = Spec.be bs 16 4 ∧ h.salt2 = Spec.be bs 20 4 ∧
    h.checksum1 = Spec.be bs 24 4 ∧ h.checksum2 = Spec.be bs 28 4 := by
  have hl := wal_len bs h hp
  rw [wal_eq bs hl] at hp
  split at hp
  · cases hp
  · split at hp
    · cases hp
    · cases hp
      exact ⟨rfl, rfl, rfl, rfl, rfl, rfl, rfl, rfl⟩

theorem wal_accepts_iff_valid (bs : List Nat) :
    (∃ h, parseWalHeader (Buf.ofList bs) = .ok h) ↔ Spec.validWalHeader bs = true := by
  simp only [Spec.validWalHeader, Bool.and_eq_true, decide_eq_true_eq, Bool.or_eq_true,
    Bool.decide_and, Bool.decide_or]
  constructor
  · rintro ⟨h, hp⟩
    have hl := wal_len bs h hp
    rw [wal_eq bs hl] at hp
    split at hp
    · cases hp
    · split at hp
      · cases hp
      · refine ⟨hl, ?_, ?_⟩ <;> omega
  · rintro ⟨hl, hm, hv⟩
    rw [wal_eq bs hl]
    rw [if_neg (by omega), if_neg (by omega)]
    exact ⟨_, rfl⟩

/-! ### database header -/

def psCheck (ps : Nat) : Py Nat :=
  if ps = Generated.MAXIMUM_PAGE_SIZE_INDICATOR then pure Generated.MAXIMUM_PAGE_SIZE
      else if ps < Generated.MINIMUM_PAGE_SIZE_LIMIT then (.error .parseError : Py Nat)
      else if ps > Generated.MAXIMUM_PAGE_SIZE_LIMIT then .error .parseError
      else if ¬ isPowerOfTwo ps then .error .parseError
      else pure ps

theorem u32_eq (b : Buf) (off : Nat) (h : off + 4 ≤ b.size) : b.u32 off = .ok (b.beN off 4) := by
  simp only [Buf.u32, h, if_true]
theorem u16_eq (b : Buf) (off : Nat) (h : off + 2 ≤ b.size) : b.u16 off = .ok (b.beN off 2) := by
  simp only [Buf.u16, h, if_true]
theorem ordAt_eq (b : Buf) (i : Nat) (h : i < b.size) : ordAt b i = .ok (b.rd i) := by
  simp only [ordAt, h, if_true]


def dbMk (b : Buf) (ps : Nat) : DbHeader :=
  { pageSize := ps, writeVersion := b.rd 18, readVersion := b.rd 19,
    reservedBytes := b.rd 20, maxFraction := b.rd 21, minFraction := b.rd 22,
    leafFraction := b.rd 23, changeCounter := b.beN 24 4, sizeInPages := b.beN 28 4,
    firstFreelistTrunk := b.beN 32 4, freelistPages := b.beN 36 4,
    schemaCookie := b.beN 40 4, schemaFormat := b.beN 44 4,
    defaultCacheSize := b.beN 48 4, largestRoot := b.beN 52 4, textEncoding := b.beN 56 4,
    userVersion := b.beN 60 4, incrementalVacuum := b.beN 64 4,
    applicationId := b.beN 68 4, versionValidFor := b.beN 92 4,
    sqliteVersion := b.beN 96 4, raw := b.toList }

/-- the parser with all reads resolved (valid when `b.size = 100`) -/
def dbChain (b : Buf) : Py DbHeader :=
  if (b.slice 0 16).toList ≠ Generated.MAGIC_HEADER_STRING then .error .parseError
  else psCheck (b.beN 16 2) >>= fun ps =>
    if b.rd 18 ≠ 1 ∧ b.rd 18 ≠ 2 then .error .parseError
    else if b.rd 19 ≠ 1 ∧ b.rd 19 ≠ 2 then .error .parseError
    else if b.rd 20 ≠ 0 then .error .notImplemented
    else if b.rd 21 ≠ 64 then .error .parseError
    else if b.rd 22 ≠ 32 then .error .parseError
    else if b.rd 23 ≠ 32 then .error .parseError
    else if ¬(b.beN 44 4 = 0 ∧ b.beN 56 4 = 0) ∧
        ¬Generated.VALID_SCHEMA_FORMATS.contains (b.beN 44 4) = true then .error .parseError
    else if ¬(b.beN 44 4 = 0 ∧ b.beN 56 4 = 0) ∧
        ¬Generated.DATABASE_TEXT_ENCODINGS.contains (b.beN 56 4) = true then .error .parseError
    else if b.beN 52 4 = 0 ∧ b.beN 64 4 ≠ 0 then .error .parseError
    else if ((b.slice 72 92).toList.any fun x => decide (x ≠ 0)) = true then .error .parseError
    else .ok (dbMk b ps)

theorem db_eq_chain (b : Buf) (hs : b.size = 100) : parseDbHeader b = dbChain b := by
  unfold parseDbHeader
  rw [u16_eq b 16 (by omega), ordAt_eq b 18 (by omega), ordAt_eq b 19 (by omega),
    ordAt_eq b 20 (by omega), ordAt_eq b 21 (by omega), ordAt_eq b 22 (by omega),
    ordAt_eq b 23 (by omega), u32_eq b 24 (by omega), u32_eq b 28 (by omega),
    u32_eq b 32 (by omega), u32_eq b 36 (by omega), u32_eq b 40 (by omega),
    u32_eq b 44 (by omega), u32_eq b 48 (by omega), u32_eq b 52 (by omega),
    u32_eq b 56 (by omega), u32_eq b 60 (by omega), u32_eq b 64 (by omega),
    u32_eq b 68 (by omega), u32_eq b 92 (by omega), u32_eq b 96 (by omega)]
  simp only [ok_bind]
  rw [if_neg (by simp [hs])]
  rfl

theorem db_size_ne (b : Buf) (hs : b.size ≠ 100) : parseDbHeader b = .error .valueError := by
  unfold parseDbHeader
  exact if_pos hs

theorem db_size (b : Buf) (h : DbHeader) (hp : parseDbHeader b = .ok h) : b.size = 100 := by
  by_cases hs : b.size = 100
  · exact hs
  · rw [db_size_ne b hs] at hp
    cases hp


theorem ite_err_ok_iff {α : Type} (c : Prop) [Decidable c] (e : PyErr) (k : Py α) (x : α) :
    (if c then Except.error e else k) = Except.ok x ↔ ¬c ∧ k = Except.ok x := by
  by_cases hc : c
  · simp [hc]
  · simp [hc]

theorem ite_err_err_iff {α : Type} (c : Prop) [Decidable c] (e e' : PyErr) (k : Py α) :
    (if c then Except.error e else k) = Except.error e' ↔ (c ∧ e = e') ∨ (¬c ∧ k = Except.error e') := by
  by_cases hc : c
  · simp [hc]
  · simp [hc]

def DbCond (b : Buf) : Prop :=
  (b.rd 18 = 1 ∨ b.rd 18 = 2) ∧ (b.rd 19 = 1 ∨ b.rd 19 = 2) ∧ b.rd 20 = 0 ∧ b.rd 21 = 64 ∧
  b.rd 22 = 32 ∧ b.rd 23 = 32 ∧
  ((b.beN 44 4 = 0 ∧ b.beN 56 4 = 0) ∨
    (Generated.VALID_SCHEMA_FORMATS.contains (b.beN 44 4) = true ∧
     Generated.DATABASE_TEXT_ENCODINGS.contains (b.beN 56 4) = true)) ∧
  (b.beN 64 4 ≠ 0 → b.beN 52 4 ≠ 0) ∧
  ((b.slice 72 92).toList.any fun x => decide (x ≠ 0)) = false

theorem dbChain_ok_iff (b : Buf) (h : DbHeader) : dbChain b = .ok h ↔
    (b.slice 0 16).toList = Generated.MAGIC_HEADER_STRING ∧
    ∃ ps, psCheck (b.beN 16 2) = .ok ps ∧ DbCond b ∧ h = dbMk b ps := by
  unfold dbChain DbCond
  by_cases hm : (b.slice 0 16).toList = Generated.MAGIC_HEADER_STRING
  case neg =>
    constructor
    · intro hp
      rw [if_pos hm] at hp
      cases hp
    · rintro ⟨h, -⟩
      exact absurd h hm
  rw [if_neg (not_not_intro hm)]
  cases hps : psCheck (b.beN 16 2) with
  | error e =>
    constructor
    · intro hp
      rw [error_bind] at hp
      cases hp
    · rintro ⟨-, ps, hpe, -⟩
      cases hpe
  | ok ps =>
    simp only [ok_bind]
    simp only [ite_err_ok_iff]
    constructor
    · rintro ⟨h1, h2, h3, h4, h5, h6, h7, h8, h9, h10, hp⟩
      cases hp
      refine ⟨hm, ps, rfl, ⟨by omega, by omega, by omega, by omega, by omega, by omega, ?_,
        by omega, by simpa using h10⟩, rfl⟩
      by_cases hz : (b.beN 44 4 = 0 ∧ b.beN 56 4 = 0)
      · exact Or.inl hz
      · refine Or.inr ⟨?_, ?_⟩
        · exact Decidable.not_not.mp (fun hc => h7 ⟨hz, hc⟩)
        · exact Decidable.not_not.mp (fun hc => h8 ⟨hz, hc⟩)
    · rintro ⟨-, ps', hpe, ⟨c1, c2, c3, c4, c5, c6, c7, c8, c9⟩, rfl⟩
      cases hpe
      refine ⟨by omega, by omega, by omega, by omega, by omega, by omega, ?_, ?_, by omega, ?_, rfl⟩
      · rintro ⟨hz, hc⟩
        rcases c7 with c7 | c7
        · exact hz c7
        · exact hc c7.1
      · rintro ⟨hz, hc⟩
        rcases c7 with c7 | c7
        · exact hz c7
        · exact hc c7.2
      · rw [c9]; exact Bool.false_ne_true

theorem and_pred_ne_zero (k v : Nat) (h1 : 2 ^ k < v) (h2 : v < 2 ^ (k + 1)) :
    v &&& (v - 1) ≠ 0 := by
  intro h
  have h0 : (v &&& (v - 1)).testBit k = false := by rw [h]; exact Nat.zero_testBit k
  rw [Nat.testBit_and, Nat.testBit_eq_decide_div_mod_eq, Nat.testBit_eq_decide_div_mod_eq] at h0
  rw [Nat.pow_succ] at h2
  have hp : 0 < 2 ^ k := Nat.two_pow_pos k
  generalize 2 ^ k = p at *
  have a : v / p = 1 := Nat.div_eq_of_lt_le (by omega) (by omega)
  have c : (v - 1) / p = 1 := Nat.div_eq_of_lt_le (by omega) (by omega)
  rw [a, c] at h0
  simp at h0

theorem isPowerOfTwo_iff (v : Nat) (hlo : 512 ≤ v) (hhi : v ≤ 32768) :
    isPowerOfTwo v = true ↔
      (v = 512 ∨ v = 1024 ∨ v = 2048 ∨ v = 4096 ∨ v = 8192 ∨ v = 16384 ∨ v = 32768) := by
  constructor
  · intro h
    simp only [isPowerOfTwo, Bool.decide_and, Bool.and_eq_true, decide_eq_true_eq] at h
    have hz := h.2
    by_cases c9 : 2 ^ 9 < v ∧ v < 2 ^ 10
    · exact absurd hz (and_pred_ne_zero 9 v c9.1 c9.2)
    by_cases c10 : 2 ^ 10 < v ∧ v < 2 ^ 11
    · exact absurd hz (and_pred_ne_zero 10 v c10.1 c10.2)
    by_cases c11 : 2 ^ 11 < v ∧ v < 2 ^ 12
    · exact absurd hz (and_pred_ne_zero 11 v c11.1 c11.2)
    by_cases c12 : 2 ^ 12 < v ∧ v < 2 ^ 13
    · exact absurd hz (and_pred_ne_zero 12 v c12.1 c12.2)
    by_cases c13 : 2 ^ 13 < v ∧ v < 2 ^ 14
    · exact absurd hz (and_pred_ne_zero 13 v c13.1 c13.2)
    by_cases c14 : 2 ^ 14 < v ∧ v < 2 ^ 15
    · exact absurd hz (and_pred_ne_zero 14 v c14.1 c14.2)
    omega
  · rintro (h | h | h | h | h | h | h) <;> subst h <;> decide


theorem psCheck_ok_iff (v ps : Nat) : psCheck v = .ok ps ↔
    (v = 1 ∧ ps = 65536) ∨ (v ≠ 1 ∧ 512 ≤ v ∧ v ≤ 32768 ∧ isPowerOfTwo v = true ∧ ps = v) := by
  unfold psCheck
  by_cases h1 : v = 1
  · subst h1
    simp only [Generated.MAXIMUM_PAGE_SIZE_INDICATOR, Generated.MAXIMUM_PAGE_SIZE, if_true, pure_eq]
    constructor
    · intro h; cases h; simp
    · intro h
      have : ps = 65536 := by simpa using h
      rw [this]
  by_cases h2 : v < 512
  · simp [h1, h2]; omega
  by_cases h3 : v > 32768
  · simp [h1, h2, h3]; omega
  by_cases h4 : isPowerOfTwo v = true
  · simp [h1, h2, h3, h4, pure_eq, eq_comm]; omega
  · simp [h1, h2, h3, h4]

theorem psCheck_error (v : Nat) (e : PyErr) (h : psCheck v = .error e) : e = .parseError := by
  unfold psCheck at h
  by_cases h1 : v = 1
  · simp [h1, pure_eq] at h
  by_cases h2 : v < 512
  · simp [h1, h2] at h; exact h.symm
  by_cases h3 : v > 32768
  · simp [h1, h2, h3] at h; exact h.symm
  by_cases h4 : isPowerOfTwo v = true
  · simp [h1, h2, h3, h4, pure_eq] at h
  · simp [h1, h2, h3, h4] at h; exact h.symm

theorem dbChain_error (b : Buf) (e : PyErr) (hp : dbChain b = .error e) :
    e = .valueError ∨ e = .parseError ∨ e = .notImplemented := by
  unfold dbChain at hp
  rw [ite_err_err_iff] at hp
  rcases hp with ⟨-, rfl⟩ | ⟨-, hp⟩
  · exact Or.inr (Or.inl rfl)
  cases hps : psCheck (b.beN 16 2) with
  | error e' =>
    rw [hps, error_bind] at hp
    cases hp
    simp [psCheck_error _ _ hps]
  | ok ps =>
    rw [hps, ok_bind] at hp
    repeat
      rw [ite_err_err_iff] at hp
      rcases hp with ⟨-, rfl⟩ | ⟨-, hp⟩
      · first | exact Or.inr (Or.inl rfl) | exact Or.inr (Or.inr rfl)
    cases hp

theorem db_error_kinds (b : Buf) (e : PyErr) (hp : parseDbHeader b = .error e) :
    e = .valueError ∨ e = .parseError ∨ e = .notImplemented := by
  by_cases hs : b.size = 100
  · rw [db_eq_chain b hs] at hp
    exact dbChain_error b e hp
  · rw [db_size_ne b hs] at hp
    cases hp
    exact Or.inl rfl


theorem contains_formats (n : Nat) :
    Generated.VALID_SCHEMA_FORMATS.contains n = true ↔ (1 ≤ n ∧ n ≤ 4) := by
  simp [Generated.VALID_SCHEMA_FORMATS]; omega

theorem contains_encodings (n : Nat) :
    Generated.DATABASE_TEXT_ENCODINGS.contains n = true ↔ (1 ≤ n ∧ n ≤ 3) := by
  simp [Generated.DATABASE_TEXT_ENCODINGS]; omega

theorem any_ne_zero_false (l : List Nat) :
    (l.any fun x => decide (x ≠ 0)) = false ↔ (l.all fun x => decide (x = 0)) = true := by
  induction l with
  | nil => simp
  | cons a t ih => simp

/-- the non-page-size conditions, on lists -/
def SpecCond (bs : List Nat) : Prop :=
  (bs.getD 18 0 = 1 ∨ bs.getD 18 0 = 2) ∧ (bs.getD 19 0 = 1 ∨ bs.getD 19 0 = 2) ∧
  bs.getD 20 0 = 0 ∧ bs.getD 21 0 = 64 ∧ bs.getD 22 0 = 32 ∧ bs.getD 23 0 = 32 ∧
  ((Spec.be bs 44 4 = 0 ∧ Spec.be bs 56 4 = 0) ∨
    ((1 ≤ Spec.be bs 44 4 ∧ Spec.be bs 44 4 ≤ 4) ∧ (1 ≤ Spec.be bs 56 4 ∧ Spec.be bs 56 4 ≤ 3))) ∧
  (Spec.be bs 64 4 ≠ 0 → Spec.be bs 52 4 ≠ 0) ∧
  (((bs.drop 72).take 20).all fun x => decide (x = 0)) = true

theorem DbCond_ofList (bs : List Nat) (hl : bs.length = 100) :
    DbCond (Buf.ofList bs) ↔ SpecCond bs := by
  unfold DbCond SpecCond
  rw [slice_toList_ofList bs 72 92 (by omega) (by omega), any_ne_zero_false]
  simp only [rd_ofList, beN_ofList, contains_formats, contains_encodings]

theorem db_ok_ofList_iff (bs : List Nat) (h : DbHeader) :
    parseDbHeader (Buf.ofList bs) = .ok h ↔
      bs.length = 100 ∧ bs.take 16 = Spec.magicString ∧
      ∃ ps, psCheck (Spec.be bs 16 2) = .ok ps ∧ SpecCond bs ∧ h = dbMk (Buf.ofList bs) ps := by
  by_cases hl : bs.length = 100
  · rw [db_eq_chain _ (by rw [size_ofList]; exact hl), dbChain_ok_iff, DbCond_ofList bs hl,
      slice_toList_ofList bs 0 16 (by omega) (by omega), beN_ofList]
    simp only [hl, true_and, List.drop_zero, Nat.sub_zero]
    rfl
  · constructor
    · intro hp
      exact absurd (db_size _ _ hp) hl
    · rintro ⟨h, -⟩
      exact absurd h hl

theorem psCheck_pageSizeOfField (v ps : Nat) (h : psCheck v = .ok ps) :
    ps = Spec.pageSizeOfField v ∧ Spec.validPageSizeField v = true := by
  rw [psCheck_ok_iff] at h
  rcases h with ⟨rfl, rfl⟩ | ⟨h1, h2, h3, h4, he⟩
  · exact ⟨rfl, rfl⟩
  · rw [isPowerOfTwo_iff v h2 h3] at h4
    rw [he]
    refine ⟨by simp [Spec.pageSizeOfField, h1], ?_⟩
    simp only [Spec.validPageSizeField, Bool.decide_or, Bool.or_eq_true, decide_eq_true_eq]
    exact Or.inr h4

theorem validPageSizeField_psCheck (v : Nat) (h : Spec.validPageSizeField v = true) :
    ∃ ps, psCheck v = .ok ps := by
  simp only [Spec.validPageSizeField, Bool.decide_or, Bool.or_eq_true, decide_eq_true_eq] at h
  by_cases h1 : v = 1
  · exact ⟨65536, (psCheck_ok_iff v _).mpr (Or.inl ⟨h1, rfl⟩)⟩
  · have h' : v = 512 ∨ v = 1024 ∨ v = 2048 ∨ v = 4096 ∨ v = 8192 ∨ v = 16384 ∨ v = 32768 := by
      omega
    exact ⟨v, (psCheck_ok_iff v _).mpr (Or.inr ⟨h1, by omega, by omega,
      (isPowerOfTwo_iff v (by omega) (by omega)).mpr h', rfl⟩)⟩

theorem db_fields_at_offsets (bs : List Nat) (h : DbHeader)
    (hp : parseDbHeader (Buf.ofList bs) = .ok h) :
    h.pageSize = Spec.pageSizeOfField (Spec.be bs 16 2) ∧
    h.writeVersion = bs.getD 18 0 ∧ h.readVersion = bs.getD 19 0 ∧ h.reservedBytes = bs.getD 20 0 ∧
    h.maxFraction = bs.getD 21 0 ∧ h.minFraction = bs.getD 22 0 ∧ h.leafFraction = bs.getD 23 0 ∧
    h.changeCounter = Spec.be bs 24 4 ∧ h.sizeInPages = Spec.be bs 28 4 ∧
    h.firstFreelistTrunk = Spec.be bs 32 4 ∧ h.freelistPages = Spec.be bs 36 4 ∧
    h.schemaCookie = Spec.be bs 40 4 ∧ h.schemaFormat = Spec.be bs 44 4 ∧
    h.defaultCacheSize = Spec.be bs 48 4 ∧ h.largestRoot = Spec.be bs 52 4 ∧
    h.textEncoding = Spec.be bs 56 4 ∧ h.userVersion = Spec.be bs 60 4 ∧
    h.incrementalVacuum = Spec.be bs 64 4 ∧ h.applicationId = Spec.be bs 68 4 ∧
    h.versionValidFor = Spec.be bs 92 4 ∧ h.sqliteVersion = Spec.be bs 96 4 := by
  rw [db_ok_ofList_iff] at hp
  obtain ⟨-, -, ps, hps, -, rfl⟩ := hp
  simp only [dbMk, beN_ofList, rd_ofList, (psCheck_pageSizeOfField _ _ hps).1, and_self]

theorem db_rejects_invalid (bs : List Nat) (h : DbHeader)
    (hp : parseDbHeader (Buf.ofList bs) = .ok h) : Spec.validDbHeader bs = true := by
  rw [db_ok_ofList_iff] at hp
  obtain ⟨hl, hm, ps, hps, ⟨-, -, -, c4, c5, c6, c7, -, c9⟩, -⟩ := hp
  simp only [Spec.validDbHeader, Bool.decide_and, Bool.decide_or, Bool.and_eq_true,
    Bool.or_eq_true, decide_eq_true_eq]
  exact ⟨hl, hm, (psCheck_pageSizeOfField _ _ hps).2, c4, c5, c6, c7, c9⟩

theorem db_accepts_sqlite (bs : List Nat) (hs : Spec.sqliteWritesDbHeader bs = true) :
    ∃ h, parseDbHeader (Buf.ofList bs) = .ok h := by
  simp only [Spec.sqliteWritesDbHeader, Spec.validDbHeader, Bool.decide_and, Bool.decide_or,
    Bool.and_eq_true, Bool.or_eq_true, decide_eq_true_eq] at hs
  obtain ⟨⟨hl, hm, hv, c4, c5, c6, c7, c9⟩, -, c1, c2, c3, c8⟩ := hs
  obtain ⟨ps, hps⟩ := validPageSizeField_psCheck _ hv
  exact ⟨_, (db_ok_ofList_iff bs _).mpr ⟨hl, hm, ps, hps, ⟨c1, c2, c3, c4, c5, c6, c7, c8, c9⟩, rfl⟩⟩

end SqliteDissect.Proofs.Header
