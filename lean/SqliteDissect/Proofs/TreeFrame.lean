/-
Frame and lock-step lemmas for the b-tree parse (`parseBTree`, `getBTreeRoot`): the parse
depends only on the pages it reports having visited.  Used by Properties/C03Skip.lean to show
that the skip in `historyStep` is sound.
-/
import SqliteDissect.Model.History
import SqliteDissect.Proofs.History
import SqliteDissect.Proofs.TreeBody
import SqliteDissect.Proofs.TreeWalk

namespace SqliteDissect.Proofs.TreeFrame
open SqliteDissect SqliteDissect.Model

/-- the two version interfaces serve page `p` identically -/
def Agree (v v' : VersionIf) (p : Nat) : Prop :=
  v.getData p = v'.getData p ∧ v.pageVersion p = v'.pageVersion p ∧ v.pageOffset p = v'.pageOffset p

theorem Agree.refl (v : VersionIf) (p : Nat) : Agree v v p := ⟨rfl, rfl, rfl⟩

theorem Agree.symm {v v' : VersionIf} {p : Nat} (h : Agree v v' p) : Agree v' v p :=
  ⟨h.1.symm, h.2.1.symm, h.2.2.symm⟩

theorem Agree.trans {v v' v'' : VersionIf} {p : Nat} (h : Agree v v' p) (h' : Agree v' v'' p) :
    Agree v v'' p :=
  ⟨h.1.trans h'.1, h.2.1.trans h'.2.1, h.2.2.trans h'.2.2⟩

/-! ### pages visited by a parse -/

/-- overflow pages hanging off the cells of one page -/
def pageOverflow (p : BPage) : List Nat :=
  p.cells.flatMap fun c => c.overflowPages.map (·.number)

/-- every page the parse read: the b-tree pages and the overflow pages of their cells -/
def visitedPages (t : List BPage) : List Nat :=
  t.flatMap fun p => p.number :: pageOverflow p

theorem visitedPages_cons (p : BPage) (t : List BPage) :
    visitedPages (p :: t) = (p.number :: pageOverflow p) ++ visitedPages t := by
  simp [visitedPages]

theorem visitedPages_append (s t : List BPage) :
    visitedPages (s ++ t) = visitedPages s ++ visitedPages t := by
  simp [visitedPages]

theorem mem_visitedPages_flatten {subs : List (List BPage)} {s : List BPage} (hs : s ∈ subs)
    {x : Nat} (hx : x ∈ visitedPages s) : x ∈ visitedPages subs.flatten := by
  simp only [visitedPages, List.mem_flatMap, List.mem_flatten] at hx ⊢
  obtain ⟨p, hp, hxp⟩ := hx
  exact ⟨p, ⟨s, hs, hp⟩, hxp⟩

/-! ### overflow chains -/

section frame
variable (v v' : VersionIf) (hps : v.pageSize = v'.pageSize)

theorem parseOverflowPage_number (n : Nat) (r : Int) (o : OvflPage)
    (h : parseOverflowPage v n r = .ok o) : o.number = n := by
  unfold parseOverflowPage at h
  obtain ⟨pv, _, h⟩ := bind_ok h
  obtain ⟨_, _, h⟩ := bind_ok h
  split at h
  · exact nomatch h
  obtain ⟨page, _, h⟩ := bind_ok h
  obtain ⟨next, _, h⟩ := bind_ok h
  simp only at h
  split at h
  · exact nomatch h
  simp only [pure, Except.pure, Except.ok.injEq] at h
  rw [← h]

include hps in
theorem parseOverflowPage_agree (n : Nat) (r : Int) (ha : Agree v v' n) :
    parseOverflowPage v n r = parseOverflowPage v' n r := by
  unfold parseOverflowPage
  rw [ha.1, ha.2.1, ha.2.2, hps]

theorem loop_acc_mem : ∀ (fuel : Nat) (cur : OvflPage) (rem : Int) (acc ch : List OvflPage),
    overflowChainLoop v fuel cur rem acc = .ok ch → ∀ o ∈ acc, o ∈ ch := by
  intro fuel
  induction fuel with
  | zero => intro cur rem acc ch h; exact nomatch h
  | succ fuel ih =>
    intro cur rem acc ch h o ho
    unfold overflowChainLoop at h
    split at h
    · simp only [Except.ok.injEq] at h
      rw [← h]; simpa using ho
    split at h
    · exact nomatch h
    obtain ⟨nx, _, h⟩ := bind_ok h
    exact ih _ _ _ _ h o (List.mem_cons_of_mem _ ho)

include hps in
theorem loop_frame : ∀ (fuel : Nat) (cur : OvflPage) (rem : Int) (acc ch : List OvflPage),
    overflowChainLoop v fuel cur rem acc = .ok ch → (∀ o ∈ ch, Agree v v' o.number) →
    overflowChainLoop v' fuel cur rem acc = .ok ch := by
  intro fuel
  induction fuel with
  | zero => intro cur rem acc ch h; exact nomatch h
  | succ fuel ih =>
    intro cur rem acc ch h ha
    unfold overflowChainLoop at h ⊢
    split at h
    · rename_i h0; rw [if_pos h0]; exact h
    rename_i h0
    rw [if_neg h0]
    split at h
    · exact nomatch h
    rename_i h1
    rw [if_neg h1]
    obtain ⟨nx, hnx, h⟩ := bind_ok h
    have hmem : nx ∈ ch := loop_acc_mem v _ _ _ _ _ h nx (List.mem_cons_self ..)
    have hnum := parseOverflowPage_number v _ _ _ hnx
    have hag : Agree v v' cur.next := by rw [← hnum]; exact ha nx hmem
    simp only
    rw [← hps, ← parseOverflowPage_agree v v' hps _ _ hag, hnx]
    exact ih _ _ _ _ h ha

include hps in
theorem parseOverflowChain_frame (first : Nat) (ob : Int) (ch : List OvflPage)
    (h : parseOverflowChain v first ob = .ok ch) (ha : ∀ o ∈ ch, Agree v v' o.number) :
    parseOverflowChain v' first ob = .ok ch := by
  unfold parseOverflowChain at h ⊢
  obtain ⟨p0, hp0, h⟩ := bind_ok h
  have hmem : p0 ∈ ch := loop_acc_mem v _ _ _ _ _ h p0 (List.mem_cons_self ..)
  have hnum := parseOverflowPage_number v _ _ _ hp0
  have hag : Agree v v' first := by rw [← hnum]; exact ha p0 hmem
  rw [← hps, ← parseOverflowPage_agree v v' hps _ _ hag, hp0]
  exact loop_frame v v' hps _ _ _ _ _ h ha

include hps in
theorem parsePayloadCell_frame (kind : CellKind) (page : Buf) (index start : Nat)
    (lc : Option Nat) (rowid : Option Int) (p : Int) (prefixLen : Nat) (c : Cell)
    (h : parsePayloadCell v kind page index start lc rowid p prefixLen = .ok c)
    (ha : ∀ o ∈ c.overflowPages, Agree v v' o.number) :
    parsePayloadCell v' kind page index start lc rowid p prefixLen = .ok c := by
  unfold parsePayloadCell at h ⊢
  rw [← hps]
  simp only at h ⊢
  generalize localPayload v.pageSize _ p = lp at h ⊢
  obtain ⟨ovNum, hov, h⟩ := bind_ok h
  rw [hov, ok_bind]
  generalize calcExpectedOverflow _ _ = ce at h ⊢
  cases ce with
  | none => exact nomatch h
  | some val =>
    obtain ⟨expPages, expLast⟩ := val
    cases ovNum <;> simp only at h ⊢ <;> (
      obtain ⟨chain, hch, h⟩ := bind_ok h
      by_cases hc1 : expPages ≠ (dictOfChain chain).length
      · rw [if_pos hc1] at h; exact nomatch h
      rw [if_neg hc1] at h
      have hfold : ∀ (init : Array Nat),
          (∀ o ∈ chain, Agree v v' o.number) →
          List.foldlM (fun (acc : Array Nat) (pg : OvflPage) => do
              let c ← v'.getData pg.number Generated.OVERFLOW_HEADER_LENGTH (some pg.contentLength)
              (pure (acc ++ c.toArray) : Py (Array Nat))) init chain
          = List.foldlM (fun (acc : Array Nat) (pg : OvflPage) => do
              let c ← v.getData pg.number Generated.OVERFLOW_HEADER_LENGTH (some pg.contentLength)
              (pure (acc ++ c.toArray) : Py (Array Nat))) init chain := by
        intro init ha
        apply foldlM_congr_mem
        intro pg hpg s
        rw [(ha pg hpg).1]
      revert h
      cases hgl : chain.getLast? <;> intro h <;> simp only at h <;> (
        split at h
        · exact nomatch h
        rename_i hc2
        obtain ⟨ovBuf, hob, h⟩ := bind_ok h
        obtain ⟨rec_, hrec, h⟩ := bind_ok h
        have hc : c.overflowPages = chain := by
          simp only [pure, Except.pure, Except.ok.injEq] at h
          rw [← h]
        rw [hc] at ha
        first
          | rw [hch, ok_bind, if_neg hc1, hgl]
          | rw [parseOverflowChain_frame v v' hps _ _ _ hch ha, ok_bind, if_neg hc1, hgl]
        simp only
        rw [if_neg hc2, hfold _ ha, hob, ok_bind, hrec, ok_bind]
        exact h))

include hps in
theorem parseCellLocal_frame (kind : CellKind) (page : Buf) (index start : Nat) (c : Cell)
    (h : parseCellLocal v kind page index start = .ok c)
    (ha : ∀ o ∈ c.overflowPages, Agree v v' o.number) :
    parseCellLocal v' kind page index start = .ok c := by
  cases kind with
  | tableInterior => exact h
  | tableLeaf =>
    unfold parseCellLocal at h ⊢
    simp only at h ⊢
    obtain ⟨⟨p, n1⟩, h1, h⟩ := bind_ok h
    obtain ⟨⟨rowid, n2⟩, h2, h⟩ := bind_ok h
    rw [h1, ok_bind]
    simp only at h ⊢
    rw [h2, ok_bind]
    exact parsePayloadCell_frame v v' hps _ _ _ _ _ _ _ _ _ h ha
  | indexLeaf =>
    unfold parseCellLocal at h ⊢
    simp only at h ⊢
    obtain ⟨⟨p, n1⟩, h1, h⟩ := bind_ok h
    rw [h1, ok_bind]
    exact parsePayloadCell_frame v v' hps _ _ _ _ _ _ _ _ _ h ha
  | indexInterior =>
    unfold parseCellLocal at h ⊢
    simp only at h ⊢
    obtain ⟨lc, h0, h⟩ := bind_ok h
    obtain ⟨⟨p, n1⟩, h1, h⟩ := bind_ok h
    obtain ⟨c0, h2, h⟩ := bind_ok h
    rw [h0, ok_bind, h1, ok_bind]
    simp only at h ⊢
    split at h
    · exact nomatch h
    rename_i hlc
    simp only [pure, Except.pure, Except.ok.injEq] at h
    subst h
    rw [parsePayloadCell_frame v v' hps _ _ _ _ _ _ _ _ _ h2 ha, ok_bind]
    rw [if_neg hlc]
    rfl

end frame

theorem root_mem_visited (v : VersionIf) (fuel n : Nat) (cls : PageType) (t : List BPage)
    (h : parseBTree v fuel n cls = .ok t) : n ∈ visitedPages t := by
  obtain ⟨me, rest, rfl, hn⟩ := parseBTree_head v fuel n cls t h
  rw [visitedPages_cons, ← hn]
  simp

/-- agreement on everything the cell loop has visited so far -/
def StAgree (v v' : VersionIf) (st : CellSt) : Prop :=
  (∀ c ∈ st.1, ∀ o ∈ c.overflowPages, Agree v v' o.number) ∧
  (∀ s ∈ st.2.1, ∀ p ∈ visitedPages s, Agree v v' p)

theorem StAgree_back (v v' : VersionIf) (fuel : Nat) (cls : PageType) (page : Buf) (ptrOff : Nat)
    (s : CellSt) (x : Nat) (s' : CellSt) (hs : cellStep v fuel cls page ptrOff s x = .ok s')
    (h : StAgree v v' s') : StAgree v v' s := by
  obtain ⟨cellOff, c, sub, _, _, _, rfl⟩ := cellStep_ok _ _ _ _ _ _ _ _ hs
  exact ⟨fun c0 hc0 => h.1 c0 (List.mem_append_left _ hc0),
    fun s0 hs0 => h.2 s0 (List.mem_append_left _ hs0)⟩

theorem mem_pageOverflow {me : BPage} {c : Cell} {o : OvflPage} (hc : c ∈ me.cells)
    (ho : o ∈ c.overflowPages) : o.number ∈ pageOverflow me := by
  simp only [pageOverflow, List.mem_flatMap, List.mem_map]
  exact ⟨c, hc, o, ho, rfl⟩

/-- (a) the parse depends only on the pages it visited -/
theorem parseBTree_frame (v v' : VersionIf) (hps : v.pageSize = v'.pageSize) (hst : v.strict = v'.strict) :
    ∀ (fuel n : Nat) (cls : PageType) (t : List BPage),
      parseBTree v fuel n cls = .ok t → (∀ p ∈ visitedPages t, Agree v v' p) →
      parseBTree v' fuel n cls = .ok t := by
  intro fuel
  induction fuel using Nat.strongRecOn with
  | ind fuel ih =>
  intro n cls t h ha
  cases fuel with
  | zero => rw [parseBTree_zero] at h; exact nomatch h
  | succ fuel =>
    obtain ⟨P⟩ := parseBTree_parts v fuel n cls t h
    have hn : Agree v v' n := ha n (root_mem_visited v _ n cls t h)
    have hsub : ∀ (lcOpt : Option Nat) (sub : List BPage),
        cellSub v fuel cls.isTable lcOpt = .ok sub → (∀ p ∈ visitedPages sub, Agree v v' p) →
        cellSub v' fuel cls.isTable lcOpt = .ok sub := by
      intro lcOpt sub hs hag
      rcases cellSub_ok _ _ _ _ _ hs with ⟨rfl, rfl⟩ | ⟨lc, fb, ccls, rfl, hfb, hccls, hfuel, hp⟩
      · rfl
      · have hlc : Agree v v' lc := hag lc (root_mem_visited v _ lc ccls sub hp)
        have hp' := ih (fuel - cellDescentFrames) (by simp only [cellDescentFrames]; omega) lc ccls sub hp hag
        simp only [cellSub]
        rw [← hlc.1, hfb, ok_bind, hccls]
        simp only
        rw [if_neg hfuel]
        exact hp'
    have hstep : ∀ (s : CellSt) (x : Nat) (s' : CellSt),
        cellStep v fuel cls P.page (ptrOffOf P.hdr) s x = .ok s' → StAgree v v' s' →
        cellStep v' fuel cls P.page (ptrOffOf P.hdr) s x = .ok s' := by
      intro s x s' hs hag
      obtain ⟨cellOff, c, sub, h1, h2, h3, rfl⟩ := cellStep_ok _ _ _ _ _ _ _ _ hs
      have h2' := parseCellLocal_frame v v' hps _ _ _ _ _ h2
        (hag.1 c (List.mem_append_right _ (List.mem_singleton_self c)))
      have h3' := hsub _ _ h3 (hag.2 sub (List.mem_append_right _ (List.mem_singleton_self sub)))
      exact cellStep_of v' fuel cls P.page (ptrOffOf P.hdr) s x cellOff c sub h1 h2' h3'
    have hcells : ∀ c ∈ P.st.1, ∀ o ∈ c.overflowPages, Agree v v' o.number := by
      intro c hc o ho
      apply ha
      have hmem : o.number ∈ pageOverflow (mkPage n P.ptype P.hdr P.pv P.off P.page P.st P.fbs P.lay) :=
        mem_pageOverflow (me := mkPage n P.ptype P.hdr P.pv P.off P.page P.st P.fbs P.lay) hc ho
      rcases finish_ok _ _ _ _ _ _ _ P.hfin with ⟨_, ht⟩ | ⟨_, rm, fb, ccls, rsub, _, _, _, _, _, _, ht⟩ <;>
      · rw [ht, visitedPages_cons]
        exact List.mem_append_left _ (List.mem_cons_of_mem _ hmem)
    have build : ∀ (hfold' : (List.range P.hdr.nCells).foldlM (cellStep v' fuel cls P.page (ptrOffOf P.hdr)) ([], [], 0) = .ok P.st),
        parseBTree v' (fuel + 1) n cls
          = finish v' fuel cls P.hdr (mkPage n P.ptype P.hdr P.pv P.off P.page P.st P.fbs P.lay) P.st.2.1 := by
      intro hfold'
      exact parseBTree_of_parts v' fuel n cls P.pv P.off P.page P.ptype P.hdr P.st P.fbs P.lay
        (by rw [← hn.2.1]; exact P.hpv) (by rw [← hn.2.2]; exact P.hoff) (by rw [← hn.1]; exact P.hpage)
        P.hptype P.hhdr P.hroot hfold' P.hfbs (by rw [← hst, ← hps]; exact P.hlay)
    rcases finish_ok _ _ _ _ _ _ _ P.hfin with ⟨hleaf, ht⟩ | ⟨hint, rm, fb, ccls, rsub, hrm, hrm0, hfb, hccls, hfuel, hrsub, ht⟩
    · have hnil := fold_leaf_subs v fuel cls P.page (ptrOffOf P.hdr) hleaf _ _ _ P.hfold (by simp)
      have hP : StAgree v v' P.st := ⟨hcells, fun s hs p hp => by rw [hnil s hs] at hp; simp [visitedPages] at hp⟩
      have hfold' := foldlM_transfer _ _ (StAgree v v') (StAgree_back v v' fuel cls P.page (ptrOffOf P.hdr))
        hstep _ _ _ P.hfold hP
      rw [build hfold', finish_leaf v' _ _ _ _ _ hleaf]
      exact congrArg Except.ok ht.symm
    · have hvis_r : ∀ p ∈ visitedPages rsub, Agree v v' p := by
        intro p hp
        apply ha
        rw [ht, visitedPages_cons, visitedPages_append]
        exact List.mem_append_right _ (List.mem_append_left _ hp)
      have hP : StAgree v v' P.st := by
        refine ⟨hcells, fun s hs p hp => ?_⟩
        apply ha
        rw [ht, visitedPages_cons, visitedPages_append]
        exact List.mem_append_right _ (List.mem_append_right _ (mem_visitedPages_flatten hs hp))
      have hfold' := foldlM_transfer _ _ (StAgree v v') (StAgree_back v v' fuel cls P.page (ptrOffOf P.hdr))
        hstep _ _ _ P.hfold hP
      have hrmA : Agree v v' rm := hvis_r rm (root_mem_visited v _ rm ccls rsub hrsub)
      have hrsub' := ih (fuel - rightMostDescentFrames) (by simp only [rightMostDescentFrames]; omega)
        rm ccls rsub hrsub hvis_r
      rw [build hfold', finish_interior v' _ _ _ _ _ rm fb ccls rsub hint hrm hrm0
        (by rw [← hrmA.1]; exact hfb) hccls hfuel hrsub']
      exact congrArg Except.ok ht.symm

/-! ### `getBTreeRoot` -/

theorem rootClass_agree (v v' : VersionIf) (n : Nat) (h : Agree v v' n) : rootClass v n = rootClass v' n := by
  unfold rootClass
  rw [h.1]

/-- (a) for `getBTreeRoot`, in terms of the visited pages -/
theorem getBTreeRoot_frame (v v' : VersionIf) (hps : v.pageSize = v'.pageSize) (hst : v.strict = v'.strict)
    (frames n : Nat) (t : List BPage) (h : getBTreeRoot v frames n = .ok t)
    (ha : ∀ p ∈ visitedPages t, Agree v v' p) : getBTreeRoot v' frames n = .ok t := by
  obtain ⟨cls, hcls, hp⟩ := getBTreeRoot_ok v frames n t h
  have hn : Agree v v' n := ha n (root_mem_visited v _ n cls t hp)
  exact getBTreeRoot_of_parse v' frames n cls t (by rw [← rootClass_agree v v' n hn]; exact hcls)
    (parseBTree_frame v v' hps hst frames n cls t hp ha) (getBTreeRoot_nodup v frames n t h)

/-! ### the pages reported by `treeAllPageNumbers` cover the visited pages

`get_pages_from_b_tree_page` walks the parsed tree by the *page's own* type byte
(`BPage.ptype`, read from the whole page), whereas the parser descended by the class the
*caller* picked from a one-byte read of the child.  Both are the same byte of the same page in
the real readers; for the abstract `VersionIf` that is the hypothesis `Coherent`. -/

/-- a one-byte read at `off` of page `n` returns the byte at `off` of the whole page -/
def Coherent (v : VersionIf) : Prop :=
  ∀ (n off : Nat) (fb page : Buf), v.getData n off (some Generated.PAGE_TYPE_LENGTH) = .ok fb →
    v.getData n 0 none = .ok page → fb.size = 1 → off < page.size ∧ page.rd off = fb.rd 0

/-- the class the parser is called with is the one the page's own type byte(s) denote -/
def RootTyped (v : VersionIf) (n : Nat) (cls : PageType) : Prop :=
  ∀ page, v.getData n 0 none = .ok page → btreePageType page = .ok cls

theorem childClass_typed (v : VersionIf) (hc : Coherent v) (n : Nat) (isT : Bool) (fb : Buf) (ccls : PageType)
    (hfb : v.getData n 0 (some Generated.PAGE_TYPE_LENGTH) = .ok fb) (hcc : childClass isT fb = some ccls) :
    RootTyped v n ccls := by
  intro page hpage
  unfold childClass at hcc
  split at hcc
  · exact nomatch hcc
  rename_i hsz
  have hsz' : fb.size = 1 := by simpa using hsz
  obtain ⟨hlt, hrd⟩ := hc n 0 fb page hfb hpage hsz'
  unfold btreePageType
  rw [if_neg (by omega)]
  simp only at hcc ⊢
  rw [hrd]
  cases isT with
  | true =>
    simp only [if_true] at hcc
    split at hcc
    · rename_i h5
      simp only [Option.some.injEq] at hcc
      subst hcc
      rw [h5]; rfl
    split at hcc
    · rename_i h13
      simp only [Option.some.injEq] at hcc
      subst hcc
      rw [h13]; rfl
    · exact nomatch hcc
  | false =>
    simp only [Bool.false_eq_true, if_false] at hcc
    split at hcc
    · rename_i h2
      simp only [Option.some.injEq] at hcc
      subst hcc
      rw [h2]; rfl
    split at hcc
    · rename_i h10
      simp only [Option.some.injEq] at hcc
      subst hcc
      rw [h10]; rfl
    · exact nomatch hcc

theorem classOfByte (b : Nat) (cls : PageType)
    (h : (if b = 0x05 then (pure .tableInterior : Py PageType)
      else if b = 0x0d then pure .tableLeaf
      else if b = 0x02 then pure .indexInterior
      else if b = 0x0a then pure .indexLeaf
      else .error .indexError) = .ok cls) :
    (b = 0x05 ∧ cls = .tableInterior) ∨ (b = 0x0d ∧ cls = .tableLeaf) ∨
    (b = 0x02 ∧ cls = .indexInterior) ∨ (b = 0x0a ∧ cls = .indexLeaf) := by
  split at h
  · rename_i hb
    simp only [pure, Except.pure, Except.ok.injEq] at h
    exact Or.inl ⟨hb, h.symm⟩
  split at h
  · rename_i hb
    simp only [pure, Except.pure, Except.ok.injEq] at h
    exact Or.inr (Or.inl ⟨hb, h.symm⟩)
  split at h
  · rename_i hb
    simp only [pure, Except.pure, Except.ok.injEq] at h
    exact Or.inr (Or.inr (Or.inl ⟨hb, h.symm⟩))
  split at h
  · rename_i hb
    simp only [pure, Except.pure, Except.ok.injEq] at h
    exact Or.inr (Or.inr (Or.inr ⟨hb, h.symm⟩))
  · exact nomatch h

theorem rootClass_typed (v : VersionIf) (hc : Coherent v) (n : Nat) (cls : PageType)
    (h : rootClass v n = .ok cls) : RootTyped v n cls := by
  intro page hpage
  unfold rootClass at h
  obtain ⟨t0, h0, h⟩ := bind_ok h
  obtain ⟨t1, h1, h⟩ := bind_ok h
  split at h
  · exact nomatch h
  rename_i hsz
  have hsz1 : t1.size = 1 := by simpa using hsz
  have hb := classOfByte _ _ h
  split at h1
  · -- page 1 with the database header
    rename_i h53
    split at h1
    · exact nomatch h1
    obtain ⟨t2, h2, h1⟩ := bind_ok h1
    split at h1
    · simp only [pure, Except.pure, Except.ok.injEq] at h1
      subst h1
      obtain ⟨hlt0, hrd0⟩ := hc n 0 t0 page h0 hpage h53.1
      obtain ⟨hlt, hrd⟩ := hc n Generated.SQLITE_DATABASE_HEADER_LENGTH t2 page h2 hpage hsz1
      simp only [Generated.SQLITE_DATABASE_HEADER_LENGTH] at hlt hrd
      unfold btreePageType
      rw [if_neg (by omega)]
      simp only
      rw [hrd0, h53.2, if_pos rfl, if_neg (by omega), hrd]
      rename_i hcond
      rcases hb with ⟨hb, rfl⟩ | ⟨hb, rfl⟩ | ⟨hb, rfl⟩ | ⟨hb, rfl⟩
      · rw [hb]; rfl
      · rw [hb]; rfl
      · rw [hb] at hcond; exact absurd hcond.2 (by decide)
      · rw [hb] at hcond; exact absurd hcond.2 (by decide)
    · exact nomatch h1
  · rename_i h53
    simp only [pure, Except.pure, Except.ok.injEq] at h1
    subst h1
    obtain ⟨hlt0, hrd0⟩ := hc n 0 t0 page h0 hpage hsz1
    have hne : t0.rd 0 ≠ 0x53 := fun hh => h53 ⟨hsz1, hh⟩
    unfold btreePageType
    rw [if_neg (by omega)]
    simp only
    rw [hrd0]
    rcases hb with ⟨hb, rfl⟩ | ⟨hb, rfl⟩ | ⟨hb, rfl⟩ | ⟨hb, rfl⟩ <;> (rw [hb]; rfl)

/-- shape of a flat page list as `get_pages_from_b_tree_page` expects it: every page typed
interior is followed by one subtree per cell plus one (the right-most) -/
inductive IsTree : List BPage → Prop
  | leaf (p : BPage) : p.ptype.isInterior = false → IsTree [p]
  | node (p : BPage) (subs : List (List BPage)) :
      p.ptype.isInterior = true → subs.length = p.cells.length + 1 → (∀ s ∈ subs, IsTree s) →
      (p.ptype = .tableInterior → ∀ c ∈ p.cells, c.overflowPages = []) →
      IsTree (p :: subs.flatten)

/-- what the cell loop of an interior page keeps invariant -/
def StTree (cls : PageType) (st : CellSt) : Prop :=
  st.1.length = st.2.1.length ∧ (∀ s ∈ st.2.1, IsTree s) ∧
  (cls = .tableInterior → ∀ c ∈ st.1, c.overflowPages = [])

theorem parseBTree_isTree (v : VersionIf) (hc : Coherent v) :
    ∀ (fuel n : Nat) (cls : PageType) (t : List BPage),
      parseBTree v fuel n cls = .ok t → RootTyped v n cls → IsTree t := by
  intro fuel
  induction fuel using Nat.strongRecOn with
  | ind fuel ih =>
  intro n cls t h hty
  cases fuel with
  | zero => rw [parseBTree_zero] at h; exact nomatch h
  | succ fuel =>
    obtain ⟨P⟩ := parseBTree_parts v fuel n cls t h
    have hpt : P.ptype = cls := by
      have := hty P.page P.hpage
      rw [P.hptype] at this
      exact Except.ok.inj this
    rcases finish_ok _ _ _ _ _ _ _ P.hfin with ⟨hleaf, ht⟩ | ⟨hint, rm, fb, ccls, rsub, hrm, hrm0, hfb, hccls, hfuel, hrsub, ht⟩
    · rw [ht]
      exact IsTree.leaf _ (by show P.ptype.isInterior = false; rw [hpt]; exact hleaf)
    · have hinv : StTree cls P.st := by
        refine foldlM_inv (cellStep v fuel cls P.page (ptrOffOf P.hdr)) (StTree cls) ?_ _ _ _ P.hfold
          ⟨rfl, by simp, by simp⟩
        intro s x s' hs hI
        obtain ⟨cellOff, c, sub, _, h2, h3, rfl⟩ := cellStep_ok _ _ _ _ _ _ _ _ hs
        have hshape := parseCellLocal_shape v _ _ _ _ _ h2
        obtain ⟨lc, hlc⟩ := hshape.2.1 (cellKind_interior cls hint)
        rw [hlc] at h3
        refine ⟨by simp [hI.1], ?_, ?_⟩
        · intro s0 hs0
          simp only [List.mem_append, List.mem_singleton] at hs0
          rcases hs0 with hs0 | rfl
          · exact hI.2.1 s0 hs0
          · rcases cellSub_ok _ _ _ _ _ h3 with ⟨hn, _⟩ | ⟨lc', fb', ccls', hlc', hfb', hccls', hfuel', hp'⟩
            · exact nomatch hn
            · exact ih (fuel - cellDescentFrames) (by simp only [cellDescentFrames]; omega) lc' ccls' _ hp'
                (childClass_typed v hc lc' _ fb' ccls' hfb' hccls')
        · intro hcls c0 hc0
          simp only [List.mem_append, List.mem_singleton] at hc0
          rcases hc0 with hc0 | rfl
          · exact hI.2.2 hcls c0 hc0
          · exact hshape.2.2 (by rw [hcls]; rfl)
      have hr : IsTree rsub :=
        ih (fuel - rightMostDescentFrames) (by simp only [rightMostDescentFrames]; omega) rm ccls rsub hrsub
          (childClass_typed v hc rm _ fb ccls hfb hccls)
      rw [ht]
      have := IsTree.node (mkPage n P.ptype P.hdr P.pv P.off P.page P.st P.fbs P.lay) (rsub :: P.st.2.1)
        (by show P.ptype.isInterior = true; rw [hpt]; exact hint)
        (by show (rsub :: P.st.2.1).length = P.st.1.length + 1; simp [hinv.1])
        (by
          intro s hs
          simp only [List.mem_cons] at hs
          rcases hs with rfl | hs
          · exact hr
          · exact hinv.2.1 s hs)
        (by
          intro hp
          show ∀ c ∈ P.st.1, c.overflowPages = []
          exact hinv.2.2 (by rw [← hpt]; exact hp))
      simpa using this

/-! ### `walkNumbers` on a well-shaped flat list -/

/-- the body of the child loop of `walkNumbers (fuel+1)` -/
def walkStep (fuel : Nat) (st : List (Nat × String) × List BPage) (_ : Nat) :
    List (Nat × String) × List BPage :=
  (st.1 ++ (walkNumbers fuel st.2).1, (walkNumbers fuel st.2).2)

theorem walkNumbers_cons (fuel : Nat) (p : BPage) (rest : List BPage) :
    walkNumbers (fuel + 1) (p :: rest) =
      if p.ptype.isInterior then
        ((p.number, p.ptype.name) ::
            ((List.range (p.cells.length + 1)).foldl (walkStep fuel) ([], rest)).1 ++ overflowNumbers p,
          ((List.range (p.cells.length + 1)).foldl (walkStep fuel) ([], rest)).2)
      else ((p.number, p.ptype.name) :: overflowNumbers p, rest) := by
  rw [walkNumbers]
  rfl

theorem pageOverflow_sub (p : BPage) (h : p.ptype = .tableInterior → ∀ c ∈ p.cells, c.overflowPages = [])
    (x : Nat) (hx : x ∈ pageOverflow p) : x ∈ (overflowNumbers p).map (·.1) := by
  simp only [pageOverflow, List.mem_flatMap, List.mem_map] at hx
  obtain ⟨c, hc, o, ho, rfl⟩ := hx
  unfold overflowNumbers
  by_cases hp : p.ptype = .tableInterior
  · rw [h hp c hc] at ho
    exact nomatch ho
  · rw [if_neg hp]
    simp only [List.mem_map, List.mem_flatMap]
    exact ⟨(o.number, "OVERFLOW"), ⟨c, hc, o, ho, rfl⟩, rfl⟩

theorem overflowNumbers_sub (p : BPage) (x : Nat) (hx : x ∈ (overflowNumbers p).map (·.1)) :
    x ∈ pageOverflow p := by
  unfold overflowNumbers at hx
  split at hx
  · exact nomatch hx
  · simp only [List.mem_map, List.mem_flatMap] at hx
    obtain ⟨y, ⟨c, hc, o, ho, rfl⟩, rfl⟩ := hx
    exact mem_pageOverflow hc ho

/-- what the walk does on a well-shaped subtree followed by anything -/
def Walks (fuel : Nat) (s : List BPage) : Prop :=
  ∀ rest, (walkNumbers fuel (s ++ rest)).2 = rest ∧
    (∀ x ∈ visitedPages s, x ∈ (walkNumbers fuel (s ++ rest)).1.map (·.1)) ∧
    (∀ x ∈ (walkNumbers fuel (s ++ rest)).1.map (·.1), x ∈ visitedPages s)

theorem walk_subs (fuel : Nat) : ∀ (subs : List (List BPage)), (∀ s ∈ subs, Walks fuel s) →
    ∀ (l : List Nat), l.length = subs.length → ∀ (acc : List (Nat × String)) (rest : List BPage),
      (l.foldl (walkStep fuel) (acc, subs.flatten ++ rest)).2 = rest ∧
      (∀ y ∈ acc, y ∈ (l.foldl (walkStep fuel) (acc, subs.flatten ++ rest)).1) ∧
      (∀ s ∈ subs, ∀ x ∈ visitedPages s,
        x ∈ (l.foldl (walkStep fuel) (acc, subs.flatten ++ rest)).1.map (·.1)) ∧
      (∀ y ∈ (l.foldl (walkStep fuel) (acc, subs.flatten ++ rest)).1,
        y ∈ acc ∨ y.1 ∈ visitedPages subs.flatten) := by
  intro subs
  induction subs with
  | nil =>
    intro _ l hl acc rest
    have : l = [] := List.length_eq_zero_iff.mp (by simpa using hl)
    subst this
    exact ⟨rfl, fun y hy => hy, (fun s hs => nomatch hs), fun y hy => Or.inl hy⟩
  | cons s ss ih =>
    intro hw l hl acc rest
    cases l with
    | nil => simp at hl
    | cons a l =>
      have hws := hw s (List.mem_cons_self ..)
      obtain ⟨h2, hmem, hrev⟩ := hws (ss.flatten ++ rest)
      have hstep : walkStep fuel (acc, (s :: ss).flatten ++ rest) a
          = (acc ++ (walkNumbers fuel (s ++ (ss.flatten ++ rest))).1, ss.flatten ++ rest) := by
        simp only [walkStep, List.flatten_cons, List.append_assoc, h2]
      rw [List.foldl_cons, hstep]
      obtain ⟨i1, i2, i3, i4⟩ := ih (fun s' hs' => hw s' (List.mem_cons_of_mem _ hs')) l
        (by simpa using hl) (acc ++ (walkNumbers fuel (s ++ (ss.flatten ++ rest))).1) rest
      refine ⟨i1, fun y hy => i2 y (List.mem_append_left _ hy), ?_, ?_⟩
      · intro s' hs' x hx
        simp only [List.mem_cons] at hs'
        rcases hs' with rfl | hs'
        · have := hmem x hx
          simp only [List.mem_map] at this ⊢
          obtain ⟨y, hy, rfl⟩ := this
          exact ⟨y, i2 y (List.mem_append_right _ hy), rfl⟩
        · exact i3 s' hs' x hx
      · intro y hy
        rcases i4 y hy with h | h
        · simp only [List.mem_append] at h
          rcases h with h | h
          · exact Or.inl h
          · right
            rw [List.flatten_cons, visitedPages_append]
            exact List.mem_append_left _ (hrev y.1 (List.mem_map.mpr ⟨y, h, rfl⟩))
        · right
          rw [List.flatten_cons, visitedPages_append]
          exact List.mem_append_right _ h

theorem length_le_flatten {α : Type} {subs : List (List α)} {s : List α} (hs : s ∈ subs) :
    s.length ≤ subs.flatten.length := by
  induction subs with
  | nil => exact nomatch hs
  | cons a l ih =>
    simp only [List.mem_cons] at hs
    simp only [List.flatten_cons, List.length_append]
    rcases hs with rfl | hs
    · omega
    · have := ih hs; omega

theorem walk_isTree (s : List BPage) (h : IsTree s) : ∀ fuel, s.length ≤ fuel → Walks fuel s := by
  induction h with
  | leaf p hp =>
    intro fuel hf rest
    cases fuel with
    | zero => simp at hf
    | succ fuel =>
      rw [List.singleton_append, walkNumbers_cons, if_neg (by simp [hp])]
      refine ⟨rfl, ?_, ?_⟩
      · intro x hx
        simp only [visitedPages, List.flatMap_cons, List.flatMap_nil, List.append_nil, List.mem_cons] at hx
        simp only [List.map_cons, List.mem_cons]
        rcases hx with rfl | hx
        · exact Or.inl rfl
        · exact Or.inr (pageOverflow_sub p (fun hh => by rw [hh] at hp; exact nomatch hp) x hx)
      · intro x hx
        simp only [List.map_cons, List.mem_cons] at hx
        simp only [visitedPages, List.flatMap_cons, List.flatMap_nil, List.append_nil, List.mem_cons]
        rcases hx with rfl | hx
        · exact Or.inl rfl
        · exact Or.inr (overflowNumbers_sub p x hx)
  | node p subs hp hlen _ hov ih =>
    intro fuel hf rest
    cases fuel with
    | zero => simp at hf
    | succ fuel =>
      have hw : ∀ s ∈ subs, Walks fuel s := by
        intro s hs
        apply ih s hs
        have := length_le_flatten hs
        simp only [List.length_cons] at hf
        omega
      obtain ⟨w1, _, w3, w4⟩ := walk_subs fuel subs hw (List.range (p.cells.length + 1))
        (by simp [hlen]) [] rest
      rw [List.cons_append, walkNumbers_cons, if_pos hp]
      refine ⟨w1, ?_, ?_⟩
      · intro x hx
        rw [visitedPages_cons] at hx
        simp only [List.cons_append, List.mem_append, List.mem_cons] at hx
        simp only [List.map_cons, List.map_append, List.mem_cons, List.mem_append]
        rcases hx with rfl | hx | hx
        · exact Or.inl (Or.inl rfl)
        · exact Or.inr (pageOverflow_sub p hov x hx)
        · simp only [visitedPages, List.mem_flatMap, List.mem_flatten] at hx
          obtain ⟨q, ⟨s, hs, hq⟩, hxq⟩ := hx
          refine Or.inl (Or.inr (w3 s hs x ?_))
          simp only [visitedPages, List.mem_flatMap]
          exact ⟨q, hq, hxq⟩
      · intro x hx
        simp only [List.map_cons, List.map_append, List.mem_cons, List.mem_append] at hx
        rw [visitedPages_cons]
        simp only [List.cons_append, List.mem_append, List.mem_cons]
        rcases hx with (rfl | hx) | hx
        · exact Or.inl rfl
        · simp only [List.mem_map] at hx
          obtain ⟨y, hy, rfl⟩ := hx
          rcases w4 y hy with h | h
          · exact nomatch h
          · exact Or.inr (Or.inr h)
        · exact Or.inr (Or.inl (overflowNumbers_sub p x hx))

/-- on a well-shaped parse `treeAllPageNumbers` reports exactly the visited pages -/
theorem mem_treeAll_iff (t : List BPage) (h : IsTree t) (x : Nat) :
    x ∈ treeAllPageNumbers t ↔ x ∈ visitedPages t := by
  have hw := walk_isTree t h (t.length + 1) (by omega) []
  simp only [List.append_nil] at hw
  exact ⟨hw.2.2 x, hw.2.1 x⟩

/-- every page a well-shaped parse visited is reported by `treeAllPageNumbers` -/
theorem visited_sub_treeAll (t : List BPage) (h : IsTree t) :
    ∀ x ∈ visitedPages t, x ∈ treeAllPageNumbers t :=
  fun x hx => (mem_treeAll_iff t h x).mpr hx

/-! ### every visited page was served by the interface -/

/-- `get_page_offset` and `get_page_version` succeeded on the page -/
def Served (v : VersionIf) (p : Nat) : Prop :=
  (∃ o, v.pageOffset p = .ok o) ∧ (∃ k, v.pageVersion p = .ok k)

theorem parseOverflowPage_served (v : VersionIf) (n : Nat) (r : Int) (o : OvflPage)
    (h : parseOverflowPage v n r = .ok o) : Served v n := by
  unfold parseOverflowPage at h
  obtain ⟨pv, hpv, h⟩ := bind_ok h
  obtain ⟨off, hoff, h⟩ := bind_ok h
  exact ⟨⟨off, hoff⟩, ⟨pv, hpv⟩⟩

theorem loop_served (v : VersionIf) : ∀ (fuel : Nat) (cur : OvflPage) (rem : Int) (acc ch : List OvflPage),
    overflowChainLoop v fuel cur rem acc = .ok ch → (∀ o ∈ acc, Served v o.number) →
    ∀ o ∈ ch, Served v o.number := by
  intro fuel
  induction fuel with
  | zero => intro cur rem acc ch h; exact nomatch h
  | succ fuel ih =>
    intro cur rem acc ch h hacc
    unfold overflowChainLoop at h
    split at h
    · simp only [Except.ok.injEq] at h
      rw [← h]
      intro o ho
      exact hacc o (by simpa using ho)
    split at h
    · exact nomatch h
    obtain ⟨nx, hnx, h⟩ := bind_ok h
    refine ih _ _ _ _ h ?_
    intro o ho
    simp only [List.mem_cons] at ho
    rcases ho with rfl | ho
    · rw [parseOverflowPage_number v _ _ _ hnx]
      exact parseOverflowPage_served v _ _ _ hnx
    · exact hacc o ho

theorem parseOverflowChain_served (v : VersionIf) (first : Nat) (ob : Int) (ch : List OvflPage)
    (h : parseOverflowChain v first ob = .ok ch) : ∀ o ∈ ch, Served v o.number := by
  unfold parseOverflowChain at h
  obtain ⟨p0, hp0, h⟩ := bind_ok h
  refine loop_served v _ _ _ _ _ h ?_
  intro o ho
  simp only [List.mem_singleton] at ho
  subst ho
  rw [parseOverflowPage_number v _ _ _ hp0]
  exact parseOverflowPage_served v _ _ _ hp0

theorem parsePayloadCell_served (v : VersionIf) (kind : CellKind) (page : Buf) (index start : Nat)
    (lc : Option Nat) (rowid : Option Int) (p : Int) (prefixLen : Nat) (c : Cell)
    (h : parsePayloadCell v kind page index start lc rowid p prefixLen = .ok c) :
    ∀ o ∈ c.overflowPages, Served v o.number := by
  unfold parsePayloadCell at h
  simp only at h
  obtain ⟨ovNum, _, h⟩ := bind_ok h
  generalize calcExpectedOverflow _ _ = ce at h
  cases ce with
  | none => exact nomatch h
  | some val =>
    obtain ⟨expPages, expLast⟩ := val
    cases ovNum <;> simp only at h <;> (
      obtain ⟨chain, hch, h⟩ := bind_ok h
      by_cases hc1 : expPages ≠ (dictOfChain chain).length
      · rw [if_pos hc1] at h; exact nomatch h
      rw [if_neg hc1] at h
      revert h
      cases hgl : chain.getLast? <;> intro h <;> simp only at h <;> (
        split at h
        · exact nomatch h
        obtain ⟨ovBuf, hob, h⟩ := bind_ok h
        obtain ⟨rec_, hrec, h⟩ := bind_ok h
        have hc : c.overflowPages = chain := by
          simp only [pure, Except.pure, Except.ok.injEq] at h
          rw [← h]
        rw [hc]
        first
          | (simp only [pure, Except.pure, Except.ok.injEq] at hch
             rw [← hch]
             intro o ho
             exact nomatch ho)
          | exact parseOverflowChain_served v _ _ _ hch))

theorem parseCellLocal_served (v : VersionIf) (kind : CellKind) (page : Buf) (index start : Nat) (c : Cell)
    (h : parseCellLocal v kind page index start = .ok c) : ∀ o ∈ c.overflowPages, Served v o.number := by
  cases kind with
  | tableInterior =>
    rw [(parseCellLocal_shape v _ _ _ _ _ h).2.2 rfl]
    intro o ho
    exact nomatch ho
  | tableLeaf =>
    unfold parseCellLocal at h
    simp only at h
    obtain ⟨⟨p, n1⟩, h1, h⟩ := bind_ok h
    obtain ⟨⟨rowid, n2⟩, h2, h⟩ := bind_ok h
    exact parsePayloadCell_served v _ _ _ _ _ _ _ _ _ h
  | indexLeaf =>
    unfold parseCellLocal at h
    simp only at h
    obtain ⟨⟨p, n1⟩, h1, h⟩ := bind_ok h
    exact parsePayloadCell_served v _ _ _ _ _ _ _ _ _ h
  | indexInterior =>
    unfold parseCellLocal at h
    simp only at h
    obtain ⟨lc, h0, h⟩ := bind_ok h
    obtain ⟨⟨p, n1⟩, h1, h⟩ := bind_ok h
    obtain ⟨c0, h2, h⟩ := bind_ok h
    split at h
    · exact nomatch h
    simp only [pure, Except.pure, Except.ok.injEq] at h
    subst h
    exact parsePayloadCell_served v _ _ _ _ _ _ _ _ _ h2

theorem parseBTree_served (v : VersionIf) :
    ∀ (fuel n : Nat) (cls : PageType) (t : List BPage),
      parseBTree v fuel n cls = .ok t → ∀ p ∈ visitedPages t, Served v p := by
  intro fuel
  induction fuel using Nat.strongRecOn with
  | ind fuel ih =>
  intro n cls t h
  cases fuel with
  | zero => rw [parseBTree_zero] at h; exact nomatch h
  | succ fuel =>
    obtain ⟨P⟩ := parseBTree_parts v fuel n cls t h
    have hinv : (∀ c ∈ P.st.1, ∀ o ∈ c.overflowPages, Served v o.number) ∧
        (∀ s ∈ P.st.2.1, ∀ p ∈ visitedPages s, Served v p) := by
      refine foldlM_inv (cellStep v fuel cls P.page (ptrOffOf P.hdr))
        (fun st => (∀ c ∈ st.1, ∀ o ∈ c.overflowPages, Served v o.number) ∧
          (∀ s ∈ st.2.1, ∀ p ∈ visitedPages s, Served v p)) ?_ _ _ _ P.hfold
        ⟨(fun c hc => nomatch hc), (fun s hs => nomatch hs)⟩
      intro s x s' hs hI
      obtain ⟨cellOff, c, sub, _, h2, h3, rfl⟩ := cellStep_ok _ _ _ _ _ _ _ _ hs
      refine ⟨?_, ?_⟩
      · intro c0 hc0
        simp only [List.mem_append, List.mem_singleton] at hc0
        rcases hc0 with hc0 | rfl
        · exact hI.1 c0 hc0
        · exact parseCellLocal_served v _ _ _ _ _ h2
      · intro s0 hs0
        simp only [List.mem_append, List.mem_singleton] at hs0
        rcases hs0 with hs0 | rfl
        · exact hI.2 s0 hs0
        · rcases cellSub_ok _ _ _ _ _ h3 with ⟨_, rfl⟩ | ⟨lc', fb', ccls', _, _, _, _, hp'⟩
          · intro p hp; simp [visitedPages] at hp
          · exact ih (fuel - cellDescentFrames) (by simp only [cellDescentFrames]; omega) lc' ccls' _ hp'
    have hme : ∀ p ∈ (n :: pageOverflow (mkPage n P.ptype P.hdr P.pv P.off P.page P.st P.fbs P.lay)), Served v p := by
      intro p hp
      simp only [List.mem_cons] at hp
      rcases hp with rfl | hp
      · exact ⟨⟨P.off, P.hoff⟩, ⟨P.pv, P.hpv⟩⟩
      · simp only [pageOverflow, List.mem_flatMap, List.mem_map] at hp
        obtain ⟨c, hc, o, ho, rfl⟩ := hp
        exact hinv.1 c hc o ho
    rcases finish_ok _ _ _ _ _ _ _ P.hfin with ⟨_, ht⟩ | ⟨_, rm, fb, ccls, rsub, _, _, _, _, _, hrsub, ht⟩
    · intro p hp
      rw [ht, visitedPages_cons] at hp
      simp only [visitedPages, List.flatMap_nil, List.append_nil] at hp
      exact hme p hp
    · intro p hp
      rw [ht, visitedPages_cons, visitedPages_append] at hp
      simp only [List.mem_append] at hp
      rcases hp with hp | hp | hp
      · exact hme p hp
      · exact ih (fuel - rightMostDescentFrames) (by simp only [rightMostDescentFrames]; omega) rm ccls rsub hrsub p hp
      · simp only [visitedPages, List.mem_flatMap, List.mem_flatten] at hp
        obtain ⟨q, ⟨s0, hs0, hq⟩, hpq⟩ := hp
        refine hinv.2 s0 hs0 p ?_
        simp only [visitedPages, List.mem_flatMap]
        exact ⟨q, hq, hpq⟩

/-! ### (a) in terms of `treeAllPageNumbers` -/

theorem parseBTree_visited_sub (v : VersionIf) (hc : Coherent v) (fuel n : Nat) (cls : PageType)
    (t : List BPage) (h : parseBTree v fuel n cls = .ok t) (hty : RootTyped v n cls) :
    ∀ x ∈ visitedPages t, x ∈ treeAllPageNumbers t :=
  visited_sub_treeAll t (parseBTree_isTree v hc fuel n cls t h hty)

theorem getBTreeRoot_visited_sub (v : VersionIf) (hc : Coherent v) (frames n : Nat)
    (t : List BPage) (h : getBTreeRoot v frames n = .ok t) :
    ∀ x ∈ visitedPages t, x ∈ treeAllPageNumbers t := by
  obtain ⟨cls, hcls, hp⟩ := getBTreeRoot_ok v frames n t h
  exact parseBTree_visited_sub v hc frames n cls t hp (rootClass_typed v hc n cls hcls)

theorem parseBTree_agree (v v' : VersionIf) (hps : v.pageSize = v'.pageSize) (hst : v.strict = v'.strict)
    (hc : Coherent v) (fuel n : Nat) (cls : PageType) (t : List BPage)
    (h : parseBTree v fuel n cls = .ok t) (hty : RootTyped v n cls)
    (ha : ∀ p ∈ treeAllPageNumbers t, Agree v v' p) :
    parseBTree v' fuel n cls = .ok t :=
  parseBTree_frame v v' hps hst fuel n cls t h
    (fun p hp => ha p (parseBTree_visited_sub v hc fuel n cls t h hty p hp))

theorem getBTreeRoot_agree (v v' : VersionIf) (hps : v.pageSize = v'.pageSize) (hst : v.strict = v'.strict)
    (hc : Coherent v) (frames n : Nat) (t : List BPage)
    (h : getBTreeRoot v frames n = .ok t)
    (ha : ∀ p ∈ treeAllPageNumbers t, Agree v v' p) :
    getBTreeRoot v' frames n = .ok t :=
  getBTreeRoot_frame v v' hps hst frames n t h
    (fun p hp => ha p (getBTreeRoot_visited_sub v hc frames n t h p hp))

/-- the pages `treeAllPageNumbers` reports are exactly the visited ones, and each was served -/
theorem getBTreeRoot_treeAll_iff (v : VersionIf) (hc : Coherent v) (frames n : Nat)
    (t : List BPage) (h : getBTreeRoot v frames n = .ok t) (x : Nat) :
    x ∈ treeAllPageNumbers t ↔ x ∈ visitedPages t := by
  obtain ⟨cls, hcls, hp⟩ := getBTreeRoot_ok v frames n t h
  exact mem_treeAll_iff t (parseBTree_isTree v hc frames n cls t hp (rootClass_typed v hc n cls hcls)) x

theorem getBTreeRoot_served (v : VersionIf) (hc : Coherent v) (frames n : Nat)
    (t : List BPage) (h : getBTreeRoot v frames n = .ok t) :
    ∀ p ∈ treeAllPageNumbers t, Served v p := by
  intro p hp
  obtain ⟨cls, _, hpar⟩ := getBTreeRoot_ok v frames n t h
  exact parseBTree_served v frames n cls t hpar p ((getBTreeRoot_treeAll_iff v hc frames n t h p).mp hp)

/-! ### (b) lock-step, through a hybrid interface -/

/-- serves the pages in `L` as `v'` does and every other page as `v` does -/
def hybrid (v v' : VersionIf) (L : List Nat) : VersionIf :=
  { v with
    getData := fun p => if p ∈ L then v'.getData p else v.getData p
    pageVersion := fun p => if p ∈ L then v'.pageVersion p else v.pageVersion p
    pageOffset := fun p => if p ∈ L then v'.pageOffset p else v.pageOffset p }

theorem hybrid_in (v v' : VersionIf) (L : List Nat) (p : Nat) (h : p ∈ L) : Agree v' (hybrid v v' L) p := by
  simp only [Agree, hybrid, if_pos h, and_self]

theorem hybrid_out (v v' : VersionIf) (L : List Nat) (p : Nat) (h : p ∉ L) : Agree v (hybrid v v' L) p := by
  simp only [Agree, hybrid, if_neg h, and_self]

theorem hybrid_agree (v v' : VersionIf) (W NonB : Nat → Prop)
    (S S' : List Nat) (hag : ∀ p ∈ S, p ∈ S' → ¬ W p → Agree v v' p)
    (hold : ∀ p ∈ S, W p → NonB p) (hnew : ∀ p ∈ S', ¬ NonB p) :
    ∀ p ∈ S, Agree v (hybrid v v' S') p := by
  intro p hp
  by_cases hin : p ∈ S'
  · have hnw : ¬ W p := fun hw => hnew p hin (hold p hp hw)
    exact (hag p hp hin hnw).trans (hybrid_in v v' S' p hin)
  · exact hybrid_out v v' S' p hin

/-- lock-step over the visited pages; agreement is only needed on the pages both parses
visit -/
theorem parseBTree_lockstep_visited (v v' : VersionIf) (hps : v.pageSize = v'.pageSize)
    (hst : v.strict = v'.strict) (W NonB : Nat → Prop)
    (fuel n : Nat) (cls : PageType) (t t' : List BPage)
    (h : parseBTree v fuel n cls = .ok t) (h' : parseBTree v' fuel n cls = .ok t')
    (hag : ∀ p ∈ visitedPages t, p ∈ visitedPages t' → ¬ W p → Agree v v' p)
    (hold : ∀ p ∈ visitedPages t, W p → NonB p) (hnew : ∀ p ∈ visitedPages t', ¬ NonB p) :
    t' = t := by
  have e1 := parseBTree_frame v' (hybrid v v' (visitedPages t')) hps.symm hst.symm fuel n cls t' h'
    (fun p hp => hybrid_in v v' _ p hp)
  have e2 := parseBTree_frame v (hybrid v v' (visitedPages t')) rfl rfl fuel n cls t h
    (hybrid_agree v v' W NonB _ _ hag hold hnew)
  rw [e1] at e2
  exact Except.ok.inj e2

theorem getBTreeRoot_lockstep_visited (v v' : VersionIf) (hps : v.pageSize = v'.pageSize)
    (hst : v.strict = v'.strict) (W NonB : Nat → Prop)
    (frames n : Nat) (t t' : List BPage)
    (h : getBTreeRoot v frames n = .ok t) (h' : getBTreeRoot v' frames n = .ok t')
    (hag : ∀ p ∈ visitedPages t, p ∈ visitedPages t' → ¬ W p → Agree v v' p)
    (hold : ∀ p ∈ visitedPages t, W p → NonB p) (hnew : ∀ p ∈ visitedPages t', ¬ NonB p) :
    t' = t := by
  have e1 := getBTreeRoot_frame v' (hybrid v v' (visitedPages t')) hps.symm hst.symm frames n t' h'
    (fun p hp => hybrid_in v v' _ p hp)
  have e2 := getBTreeRoot_frame v (hybrid v v' (visitedPages t')) rfl rfl frames n t h
    (hybrid_agree v v' W NonB _ _ hag hold hnew)
  rw [e1] at e2
  exact Except.ok.inj e2

/-- (b) lock-step lemma, strong form: agreement off `W` is only needed on the pages of both
parses.  Pages the commit wrote (`W`) that the old parse visited are all non-b-tree pages of the
new version (`NonB`), and the new parse visits no `NonB` page: then the new parse is the old one. -/
theorem parseBTree_lockstep' (v v' : VersionIf) (hps : v.pageSize = v'.pageSize)
    (hst : v.strict = v'.strict) (hc : Coherent v) (hc' : Coherent v')
    (W NonB : Nat → Prop)
    (fuel n : Nat) (cls : PageType) (t t' : List BPage)
    (hty : RootTyped v n cls) (hty' : RootTyped v' n cls)
    (h : parseBTree v fuel n cls = .ok t) (h' : parseBTree v' fuel n cls = .ok t')
    (hag : ∀ p ∈ treeAllPageNumbers t, p ∈ treeAllPageNumbers t' → ¬ W p → Agree v v' p)
    (hold : ∀ p ∈ treeAllPageNumbers t, W p → NonB p)
    (hnew : ∀ p ∈ treeAllPageNumbers t', ¬ NonB p) :
    t' = t :=
  parseBTree_lockstep_visited v v' hps hst W NonB fuel n cls t t' h h'
    (fun p hp hp' => hag p (parseBTree_visited_sub v hc fuel n cls t h hty p hp)
      (parseBTree_visited_sub v' hc' fuel n cls t' h' hty' p hp'))
    (fun p hp => hold p (parseBTree_visited_sub v hc fuel n cls t h hty p hp))
    (fun p hp => hnew p (parseBTree_visited_sub v' hc' fuel n cls t' h' hty' p hp))

/-- (b) as stated in the task (plus the coherence / root typing hypotheses) -/
theorem parseBTree_lockstep (v v' : VersionIf) (hps : v.pageSize = v'.pageSize)
    (hst : v.strict = v'.strict) (hc : Coherent v) (hc' : Coherent v')
    (W NonB : Nat → Prop) (hag : ∀ p, ¬ W p → Agree v v' p)
    (fuel n : Nat) (cls : PageType) (t t' : List BPage)
    (hty : RootTyped v n cls) (hty' : RootTyped v' n cls)
    (h : parseBTree v fuel n cls = .ok t) (h' : parseBTree v' fuel n cls = .ok t')
    (hold : ∀ p ∈ treeAllPageNumbers t, W p → NonB p)
    (hnew : ∀ p ∈ treeAllPageNumbers t', ¬ NonB p) :
    t' = t :=
  parseBTree_lockstep' v v' hps hst hc hc' W NonB fuel n cls t t' hty hty' h h'
    (fun p _ _ => hag p) hold hnew

theorem getBTreeRoot_lockstep' (v v' : VersionIf) (hps : v.pageSize = v'.pageSize)
    (hst : v.strict = v'.strict) (hc : Coherent v) (hc' : Coherent v')
    (W NonB : Nat → Prop)
    (frames n : Nat) (t t' : List BPage)
    (h : getBTreeRoot v frames n = .ok t) (h' : getBTreeRoot v' frames n = .ok t')
    (hag : ∀ p ∈ treeAllPageNumbers t, p ∈ treeAllPageNumbers t' → ¬ W p → Agree v v' p)
    (hold : ∀ p ∈ treeAllPageNumbers t, W p → NonB p)
    (hnew : ∀ p ∈ treeAllPageNumbers t', ¬ NonB p) :
    t' = t :=
  getBTreeRoot_lockstep_visited v v' hps hst W NonB frames n t t' h h'
    (fun p hp hp' => hag p (getBTreeRoot_visited_sub v hc frames n t h p hp)
      (getBTreeRoot_visited_sub v' hc' frames n t' h' p hp'))
    (fun p hp => hold p (getBTreeRoot_visited_sub v hc frames n t h p hp))
    (fun p hp => hnew p (getBTreeRoot_visited_sub v' hc' frames n t' h' p hp))

theorem getBTreeRoot_lockstep (v v' : VersionIf) (hps : v.pageSize = v'.pageSize)
    (hst : v.strict = v'.strict) (hc : Coherent v) (hc' : Coherent v')
    (W NonB : Nat → Prop) (hag : ∀ p, ¬ W p → Agree v v' p)
    (frames n : Nat) (t t' : List BPage)
    (h : getBTreeRoot v frames n = .ok t) (h' : getBTreeRoot v' frames n = .ok t')
    (hold : ∀ p ∈ treeAllPageNumbers t, W p → NonB p)
    (hnew : ∀ p ∈ treeAllPageNumbers t', ¬ NonB p) :
    t' = t :=
  getBTreeRoot_lockstep' v v' hps hst hc hc' W NonB frames n t t' h h' (fun p _ _ => hag p) hold hnew

/-! ### the skip of `historyStep` -/

/-- the step that skipped: its result -/
theorem historyStep_skip (frames : Nat) (isTable : Bool) (st : IterState) (ver : Version) (v' : VersionIf)
    (root : Nat) (hskip : st.currentPages.any ver.updatedBTree.contains = false) :
    historyStep frames isTable st ver v' root (some root) =
      .ok ({ version := ver.number, rootPage := root, pageNumbers := st.currentPages, updatedPageNumbers := [],
             bTreeUpdated := false, added := [], updated := [], deleted := [] }, st) := by
  unfold historyStep
  simp only [hskip, ne_eq, not_true_eq_false, decide_false, Bool.false_eq_true, or_self,
    if_false]
  rfl

/-- the forced re-read (no previous root) of a tree whose parse is `t'` -/
theorem historyStep_forced (frames : Nat) (isTable : Bool) (st : IterState) (ver : Version) (v' : VersionIf)
    (root : Nat) (t' : List BPage) (h' : getBTreeRoot v' frames root = .ok t')
    (htot : (aggregateLeafCells t' []).1 = (aggregateLeafCells t' []).2.1.length) :
    historyStep frames isTable st ver v' root none =
      .ok ({ version := ver.number, rootPage := root, pageNumbers := treeAllPageNumbers t',
             updatedPageNumbers := (treeAllPageNumbers t').filter ver.updatedBTree.contains,
             bTreeUpdated := true,
             added := (diffCells isTable st.currentCells (aggregateLeafCells t' []).2.1).1,
             updated := (diffCells isTable st.currentCells (aggregateLeafCells t' []).2.1).2.1,
             deleted := (diffCells isTable st.currentCells (aggregateLeafCells t' []).2.1).2.2 },
           { currentCells := (aggregateLeafCells t' []).2.1, currentPages := treeAllPageNumbers t' }) := by
  unfold historyStep
  simp only [if_true, h', ok_bind]
  rw [if_neg (by simpa using htot)]
  rfl

theorem skip_sound (frames : Nat) (isTable : Bool) (st st' : IterState) (ver : Version)
    (v v' : VersionIf) (root : Nat) (c : Commit) (t t' : List BPage) (W NonB : List Nat)
    (hps : v.pageSize = v'.pageSize) (hst : v.strict = v'.strict)
    (hc : Coherent v) (hc' : Coherent v')
    (hprev : getBTreeRoot v frames root = .ok t)
    (hpages : st.currentPages = treeAllPageNumbers t)
    (hcells : st.currentCells = (aggregateLeafCells t []).2.1)
    (hskip : st.currentPages.any ver.updatedBTree.contains = false)
    (hstep : historyStep frames isTable st ver v' root (some root) = .ok (c, st'))
    (hW : ∀ p, p ∈ W → p ∉ NonB → p ∈ ver.updatedBTree)
    (hnext : getBTreeRoot v' frames root = .ok t')
    (hag : ∀ p ∈ treeAllPageNumbers t, p ∈ treeAllPageNumbers t' → p ∉ W → Agree v v' p)
    (hnew : ∀ p ∈ treeAllPageNumbers t', p ∉ NonB) :
    t' = t ∧
    diffCells isTable st.currentCells (aggregateLeafCells t' []).2.1 = ([], [], []) ∧
    c.added = [] ∧ c.updated = [] ∧ c.deleted = [] ∧ c.bTreeUpdated = false ∧
    c.pageNumbers = treeAllPageNumbers t' ∧ st' = st ∧
    st'.currentCells = (aggregateLeafCells t' []).2.1 ∧ st'.currentPages = treeAllPageNumbers t' := by
  have hold : ∀ p ∈ treeAllPageNumbers t, p ∈ W → p ∈ NonB := by
    intro p hp hw
    apply Classical.byContradiction
    intro hn
    have hu := hW p hw hn
    have : st.currentPages.any ver.updatedBTree.contains = true := by
      rw [List.any_eq_true]
      exact ⟨p, by rw [hpages]; exact hp, by simpa using hu⟩
    rw [hskip] at this
    exact nomatch this
  have ht : t' = t :=
    getBTreeRoot_lockstep' v v' hps hst hc hc' (· ∈ W) (· ∈ NonB) frames root t t' hprev hnext hag hold hnew
  rw [historyStep_skip frames isTable st ver v' root hskip] at hstep
  simp only [Except.ok.injEq, Prod.mk.injEq] at hstep
  obtain ⟨hc1, hs1⟩ := hstep
  subst hc1 hs1
  refine ⟨ht, ?_, rfl, rfl, rfl, rfl, ?_, rfl, ?_, ?_⟩
  · rw [ht, hcells]
    exact History.unchanged_reports_nothing _ isTable
  · rw [ht]; exact hpages
  · rw [ht]; exact hcells
  · rw [ht]; exact hpages

end SqliteDissect.Proofs.TreeFrame
