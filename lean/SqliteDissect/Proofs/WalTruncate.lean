/-
C05 — truncation of the write-ahead log, end to end through `versionHistory`.

The version history of a log cut at an arbitrary byte is an initial segment of the version
history of the whole log (same `Version` records, same version interfaces as functions).
-/
import SqliteDissect.Proofs.WalHistory
namespace SqliteDissect.Proofs.WalTruncate
open SqliteDissect SqliteDissect.Model
open SqliteDissect.Proofs.Wal SqliteDissect.Proofs.WalHistory

/-! ### reads of a version interface stay inside the truncated file -/

/-- every frame number stored in a page→frame index is at most `K` -/
def PfiBound (K : Nat) (pfi : List (Nat × Nat)) : Prop := ∀ p f, dictGet? pfi p = some f → f ≤ K

theorem image_end_le (ps f K n : Nat) (hK : 1 ≤ K) (hf : f ≤ K) (hn : 32 + K * (24 + ps) ≤ n) :
    32 + 24 * f + ps * (f - 1) + ps ≤ n := by
  have h1 : f * (24 + ps) ≤ K * (24 + ps) := Nat.mul_le_mul_right _ hf
  have h2 : 1 * (24 + ps) ≤ K * (24 + ps) := Nat.mul_le_mul_right _ hK
  rcases Nat.eq_zero_or_pos f with rfl | hpos
  · simp only [Nat.mul_zero, Nat.zero_sub, Nat.add_zero] at *
    omega
  · obtain ⟨k, rfl⟩ : ∃ k, f = k + 1 := ⟨f - 1, by omega⟩
    simp only [Nat.add_sub_cancel, Nat.add_mul, Nat.mul_add, Nat.one_mul, Nat.mul_one] at *
    have : ps * k = k * ps := Nat.mul_comm _ _
    have : 24 * k = k * 24 := Nat.mul_comm _ _
    omega

/-- the version interface of a commit record over the truncated file is the same function as
over the whole file, as long as its frame index only mentions whole frames of the truncated file -/
theorem walVersionIf_trunc (strict : Bool) (dbv : VersionIf) (w w' : Wal) (file : Buf) (n K : Nat)
    (number dbSize : Nat) (pvi pfi : List (Nat × Nat)) (own : List Nat)
    (hle : n ≤ file.size) (hfh : w.fh = ⟨file.size, file⟩) (hfh' : w'.fh = ⟨n, file.slice 0 n⟩)
    (hps : w'.hdr.pageSize = w.hdr.pageSize)
    (hK : 1 ≤ K) (hn : 32 + K * (24 + w.hdr.pageSize) ≤ n) (hb : PfiBound K pfi) :
    walVersionIf strict dbv w' number dbSize pvi pfi own = walVersionIf strict dbv w number dbSize pvi pfi own := by
  unfold walVersionIf
  simp only [hps, hfh, hfh']
  congr 1
  funext p off cnt
  cases hpv : dictGet? pvi p with
  | none => rfl
  | some pv =>
    simp only
    by_cases h0 : pv = 0
    · simp only [if_pos h0]
    simp only [if_neg h0]
    by_cases h1 : off ≥ w.hdr.pageSize
    · simp only [if_pos h1]
    simp only [if_neg h1]
    have key : ∀ nb : Nat, 0 < nb →
        (if off + nb > w.hdr.pageSize then (Except.error PyErr.valueError : Py Buf)
         else do
          let po ← (if p < 1 ∨ p > dbSize then (Except.error PyErr.valueError : Py Nat)
            else if pv = number ∧ ¬ own.contains p = true then Except.error PyErr.parseError
            else match dictGet? pfi p with
              | none => Except.error PyErr.keyError
              | some f => Except.ok (Generated.WAL_HEADER_LENGTH + Generated.WAL_FRAME_HEADER_LENGTH * f + w.hdr.pageSize * (f - 1)))
          FileH.read ⟨n, file.slice 0 n⟩ (po + off) nb) =
        (if off + nb > w.hdr.pageSize then (Except.error PyErr.valueError : Py Buf)
         else do
          let po ← (if p < 1 ∨ p > dbSize then (Except.error PyErr.valueError : Py Nat)
            else if pv = number ∧ ¬ own.contains p = true then Except.error PyErr.parseError
            else match dictGet? pfi p with
              | none => Except.error PyErr.keyError
              | some f => Except.ok (Generated.WAL_HEADER_LENGTH + Generated.WAL_FRAME_HEADER_LENGTH * f + w.hdr.pageSize * (f - 1)))
          FileH.read ⟨file.size, file⟩ (po + off) nb) := by
      intro nb hnb
      by_cases h2 : off + nb > w.hdr.pageSize
      · simp only [if_pos h2]
      simp only [if_neg h2]
      by_cases h3 : p < 1 ∨ p > dbSize
      · simp only [if_pos h3]; rfl
      simp only [if_neg h3]
      by_cases h4 : pv = number ∧ ¬ own.contains p = true
      · simp only [if_pos h4]; rfl
      simp only [if_neg h4]
      cases hpf : dictGet? pfi p with
      | none => rfl
      | some f =>
        simp only [bind, Except.bind, Generated.WAL_HEADER_LENGTH, Generated.WAL_FRAME_HEADER_LENGTH]
        have hfK := hb p f hpf
        have hend := image_end_le w.hdr.pageSize f K n hK hfK hn
        exact read_trunc file n _ _ hle hnb (by omega)
    cases cnt with
    | none => exact key (w.hdr.pageSize - off) (by omega)
    | some c =>
      cases c with
      | zero => exact key (w.hdr.pageSize - off) (by omega)
      | succ c => exact key (c + 1) (by omega)

/-! ### `makeCommitRecord` only looks at the header's page size and the version interface -/

theorem makeCommitRecord_congr (cfg : Config) (dbv : VersionIf) (w w' : Wal) (number : Nat) (g : List Frame)
    (prev : Version) (lh : DbHeader) (ls : MasterSchema) (lrt : List BPage) (enc : Nat)
    (hps : w'.hdr.pageSize = w.hdr.pageSize)
    (hv : ∀ fd c cs, recordFrames g = .ok (fd, c, cs) →
      walVersionIf cfg.strict dbv w' number cs (nextPvi prev.pvi number (fd.map (·.1))) (nextPfi prev.pfi fd) (fd.map (·.1))
        = walVersionIf cfg.strict dbv w number cs (nextPvi prev.pvi number (fd.map (·.1))) (nextPfi prev.pfi fd) (fd.map (·.1))) :
    makeCommitRecord cfg dbv w' number g prev lh ls lrt enc = makeCommitRecord cfg dbv w number g prev lh ls lrt enc := by
  unfold makeCommitRecord
  cases hr : recordFrames g with
  | error e => rfl
  | ok r =>
    obtain ⟨fd, c, cs⟩ := r
    simp only [bind, Except.bind]
    rw [hv fd c cs hr, hps]

/-! ### the history fold over the truncated file -/

/-- how the truncated log `w'` relates to the whole log `w`: same header, file handles on the cut
and the whole file, `K ≥ 1` whole frames fit below the cut -/
structure Trunc (w w' : Wal) (file : Buf) (n K : Nat) : Prop where
  hle : n ≤ file.size
  fh : w.fh = ⟨file.size, file⟩
  fh' : w'.fh = ⟨n, file.slice 0 n⟩
  hdr : w'.hdr = w.hdr
  K1 : 1 ≤ K
  Kn : 32 + K * (24 + w.hdr.pageSize) ≤ n

theorem pfiBound_nil (K : Nat) : PfiBound K [] := by
  intro p f h; rw [dictGet?_nil] at h; exact nomatch h

theorem lastOf_mem (g : List Frame) (p : Nat) (f : Frame) (h : lastOf g p = some f) : f ∈ g := by
  unfold lastOf at h
  exact (List.mem_filter.mp (List.mem_of_getLast? h)).1

theorem pfiBound_next (K : Nat) (prev : List (Nat × Nat)) (g : List Frame) (fd : List (Nat × Frame)) (c : Bool) (cs : Nat)
    (hp : PfiBound K prev) (hg : ∀ f ∈ g, f.number ≤ K) (hr : recordFrames g = .ok (fd, c, cs)) :
    PfiBound K (nextPfi prev fd) := by
  have hfd := recordFrames_ok_fd g fd c cs hr
  subst hfd
  intro p f h
  rw [dictGet?_nextPfi _ _ _ (recDict_nodup g), recDict_get] at h
  cases hl : lastOf g p with
  | none => rw [hl] at h; exact hp p f (by simpa using h)
  | some fr =>
    rw [hl] at h
    simp only [Option.map_some, Option.some_or, Option.some.injEq] at h
    rw [← h]; exact hg fr (lastOf_mem g p fr hl)

theorem hStep_trunc (cfg : Config) (dbv : VersionIf) (w w' : Wal) (file : Buf) (n K : Nat)
    (T : Trunc w w' file n K) (st : HSt) (g : List Frame)
    (hg : ∀ f ∈ g, f.number ≤ K)
    (hb : ∀ pv pvi, st.1.getLast? = some (pv, pvi) → PfiBound K pv.pfi) :
    hStep cfg dbv w' st g = hStep cfg dbv w st g := by
  obtain ⟨vs, lh, ls, lrt, enc⟩ := st
  unfold hStep
  simp only
  cases hl : vs.getLast? with
  | none => rfl
  | some x =>
    obtain ⟨pv, pvi⟩ := x
    simp only
    rw [makeCommitRecord_congr cfg dbv w w' vs.length g pv lh ls lrt enc (by rw [T.hdr])]
    intro fd c cs hr
    exact walVersionIf_trunc cfg.strict dbv w w' file n K _ _ _ _ _ T.hle T.fh T.fh' (by rw [T.hdr]) T.K1 T.Kn
      (pfiBound_next K pv.pfi g fd c cs (hb pv pvi hl) hg hr)

theorem fold_trunc (cfg : Config) (dbv : VersionIf) (w w' : Wal) (file : Buf) (n K : Nat)
    (T : Trunc w w' file n K) (gs : List (List Frame)) : ∀ (st : HSt),
    (∀ g ∈ gs, ∀ f ∈ g, f.number ≤ K) →
    (∀ pv pvi, st.1.getLast? = some (pv, pvi) → PfiBound K pv.pfi) →
    gs.foldlM (hStep cfg dbv w') st = gs.foldlM (hStep cfg dbv w) st := by
  induction gs with
  | nil => intro st _ _; rfl
  | cons g gs ih =>
    intro st hg hb
    rw [List.foldlM_cons, List.foldlM_cons,
      hStep_trunc cfg dbv w w' file n K T st g (hg g (by simp)) hb]
    cases hs : hStep cfg dbv w st g with
    | error e => rfl
    | ok st1 =>
      simp only [bind, Except.bind]
      apply ih st1 (fun g' hg' => hg g' (by simp [hg']))
      intro pv pvi hl
      obtain ⟨pv0, pvi0, cv, cvi, hl0, hm, hst⟩ := hStep_ok cfg dbv w st st1 g hs
      rw [hst, List.getLast?_append] at hl
      simp only [List.getLast?_singleton, Option.some_or, Option.some.injEq, Prod.mk.injEq] at hl
      obtain ⟨rfl, rfl⟩ := hl
      obtain ⟨fd, csize, hr, -, -, -, -, hpfi, -⟩ := commit_record_indices _ _ _ _ _ _ _ _ _ _ _ _ hm
      rw [hpfi]
      exact pfiBound_next K pv0.pfi g fd true csize (hb pv0 pvi0 hl0) (hg g (by simp)) hr

theorem foldlM_append_ok {σ α : Type} (f : σ → α → Py σ) (a b : List α) (s r : σ)
    (h : (a ++ b).foldlM f s = .ok r) : ∃ s1, a.foldlM f s = .ok s1 ∧ b.foldlM f s1 = .ok r := by
  rw [List.foldlM_append] at h
  exact bind_ok _ _ _ h

theorem fold_versions (cfg : Config) (dbv : VersionIf) (w : Wal) (gs : List (List Frame)) : ∀ (st st' : HSt),
    gs.foldlM (hStep cfg dbv w) st = .ok st' → st.1 <+: st'.1 ∧ st'.1.length = st.1.length + gs.length := by
  induction gs with
  | nil =>
    intro st st' h
    simp only [List.foldlM_nil, pure, Except.pure, Except.ok.injEq] at h
    subst h; exact ⟨List.prefix_refl _, rfl⟩
  | cons g gs ih =>
    intro st st' h
    rw [List.foldlM_cons] at h
    obtain ⟨st1, h1, h2⟩ := bind_ok _ _ _ h
    obtain ⟨_, _, cv, cvi, _, _, hst⟩ := hStep_ok cfg dbv w st st1 g h1
    obtain ⟨hp, hlen⟩ := ih st1 st' h2
    refine ⟨List.IsPrefix.trans (by rw [hst]; exact List.prefix_append _ _) hp, ?_⟩
    rw [hlen, hst]; simp only [List.length_append, List.length_cons, List.length_nil]; omega

/-- core: the history of the truncated log is the history of the whole log cut after the versions
of the truncated log's commit records -/
theorem history_trunc_core (cfg : Config) (db : Database) (dbv : VersionIf) (w w' : Wal) (file : Buf) (n K : Nat)
    (T : Trunc w w' file n K) (hpre : w'.frames <+: w.frames)
    (hend : ∃ init last, w'.frames = init ++ [last] ∧ last.isCommit = true)
    (hK : ∀ f ∈ w'.frames, f.number ≤ K)
    (vs : List (Version × VersionIf)) (hv : versionHistory cfg db dbv (some w) = .ok vs) :
    versionHistory cfg db dbv (some w') = .ok (vs.take ((groupFrames w'.frames [] []).1.length + 1)) := by
  obtain ⟨t, ht⟩ := hpre
  obtain ⟨init, last, hfr, hlast⟩ := hend
  obtain ⟨⟨u, hu⟩, hrest'⟩ := group_prefix w'.frames t init last hfr hlast
  rw [ht] at hu
  have hspec := group_spec w'.frames _ _ (rfl : groupFrames w'.frames [] [] = ((groupFrames w'.frames [] []).1, (groupFrames w'.frames [] []).2))
  rw [hrest', List.append_nil] at hspec
  rw [versionHistory_eq] at hv ⊢
  obtain ⟨st2, hf2, hv⟩ := bind_ok _ _ _ hv
  split at hv
  · exact nomatch hv
  simp only [pure, Except.pure, Except.ok.injEq] at hv
  subst hv
  rw [← hu] at hf2
  obtain ⟨st1, hf1, hf12⟩ := foldlM_append_ok _ _ _ _ _ hf2
  have hbound : ∀ g ∈ (groupFrames w'.frames [] []).1, ∀ f ∈ g, f.number ≤ K := by
    intro g hg f hf
    apply hK f
    rw [← hspec.1]
    exact List.mem_flatten.mpr ⟨g, hg, hf⟩
  rw [fold_trunc cfg dbv w w' file n K T _ _ hbound (by
    intro pv pvi hl
    simp only [List.getLast?_singleton, Option.some.injEq, Prod.mk.injEq] at hl
    rw [← hl.1]; exact pfiBound_nil K), hf1, hrest']
  simp only [bind, Except.bind, List.isEmpty_nil, not_true_eq_false, if_false, pure, Except.pure]
  obtain ⟨-, hlen1⟩ := fold_versions cfg dbv w _ _ _ hf1
  obtain ⟨hp12, -⟩ := fold_versions cfg dbv w _ _ _ hf12
  rw [List.prefix_iff_eq_take] at hp12
  rw [hp12, hlen1]
  simp only [List.length_singleton]
  rw [Nat.add_comm]

/-! ### what `openWal` gives for the whole and the truncated file -/

theorem openWal_fh (gs : Option Nat) (file : Buf) (w : Wal) (h : openWal gs file = .ok w) :
    w.fh = ⟨givenSz gs file, file⟩ := by
  unfold openWal at h
  simp only [bind, Except.bind] at h
  split at h
  · exact nomatch h
  split at h
  · exact nomatch h
  split at h
  · exact nomatch h
  split at h
  · exact nomatch h
  simp only [pure, Except.pure, Except.ok.injEq] at h
  subst h
  rfl

/-- a header cut short is refused (`ValueError` from the 32-byte length check) -/
theorem truncated_header_rejected (gs : Option Nat) (file : Buf) (n : Nat) (hn : n < 32) :
    openWal gs (file.slice 0 n) = .error .valueError := by
  unfold openWal
  have hsz : ((file.slice 0 n).slice 0 Generated.WAL_HEADER_LENGTH).size ≠ Generated.WAL_HEADER_LENGTH := by
    simp only [Buf.slice, Generated.WAL_HEADER_LENGTH]; omega
  simp only [bind, Except.bind, parseWalHeader, if_pos hsz]

theorem frame_index_lt (fs : List Frame) (hidx : fs.map Frame.index = List.range fs.length) (f : Frame) (hf : f ∈ fs) :
    f.index < fs.length := by
  have : f.index ∈ fs.map Frame.index := List.mem_map_of_mem hf
  rw [hidx, List.mem_range] at this
  exact this

/-- everything the end-to-end argument needs about the two parses -/
theorem openWal_trunc (file : Buf) (n : Nat) (hn : 32 ≤ n) (hle : n ≤ file.size) (w w' : Wal)
    (hfull : openWal none file = .ok w) (hcut : openWal none (file.slice 0 n) = .ok w') :
    Trunc w w' file n (Spec.wholeFrames w.hdr.pageSize n) ∧ w'.frames <+: w.frames ∧
    (∃ init last, w'.frames = init ++ [last] ∧ last.isCommit = true) ∧
    (∀ f ∈ w'.frames, f.number ≤ Spec.wholeFrames w.hdr.pageSize n) := by
  have hfh := openWal_fh none file w hfull
  have hfh' := openWal_fh none (file.slice 0 n) w' hcut
  have hcount := (frames_of_truncated file n hn hle w' hcut).2
  obtain ⟨-, -, hidx'⟩ := stale_never_served none (file.slice 0 n) w' hcut
  obtain ⟨init, last, hfr, hlast, -⟩ := accepted_ends_in_commit none (file.slice 0 n) w' hcut
  obtain ⟨hdr, st, fsize, hfs, hhdr, hfold, _, _, hh, hf, _, _⟩ := openWal_ok none file w hfull
  obtain ⟨hdr', st', fsize', hfs', hhdr', hfold', _, _, hh', hf', _, _⟩ := openWal_ok none (file.slice 0 n) w' hcut
  have e1 : fsize = file.size := hfs
  have e2 : fsize' = n := by rw [hfs']; exact slice_size_trunc file n hle
  subst e1 e2
  simp only [Generated.WAL_HEADER_LENGTH] at hhdr hhdr'
  rw [slice_slice file fsize' 0 32 hle (by omega) hn, hhdr] at hhdr'
  have e3 : hdr' = hdr := by injection hhdr' with h; exact h.symm
  subst e3
  have hhdrs : w'.hdr = w.hdr := by rw [hh, hh']
  have hsz : 32 ≤ file.size := by omega
  rw [nFrames_nat _ _ hn, Int.toNat_natCast] at hfold'
  rw [nFrames_nat _ _ hsz, Int.toNat_natCast] at hfold
  rw [foldlM_congr_mem _ (walScanStep ⟨file.size, file⟩ hdr') _ (fun i hi s =>
      walScanStep_trunc file fsize' i hdr' s hle
        (wholeFrames_bound _ _ _ (List.mem_range.mp hi) hn))] at hfold'
  obtain ⟨d, hd⟩ : ∃ d, Spec.wholeFrames hdr'.pageSize file.size = Spec.wholeFrames hdr'.pageSize fsize' + d :=
    ⟨_, (Nat.add_sub_cancel' (wholeFrames_mono _ _ _ hle)).symm⟩
  rw [hd, List.range_add, List.foldlM_append, hfold'] at hfold
  simp only [bind, Except.bind] at hfold
  have hp := scan_valid_prefix _ _ _ _ _ hfold
  rw [← hf, ← hf'] at hp
  have hlen : w'.frames.length ≤ Spec.wholeFrames w.hdr.pageSize fsize' := by rw [← hhdrs]; omega
  have hpos : 1 ≤ w'.frames.length := by rw [hfr]; simp
  refine ⟨⟨hle, hfh, ?_, hhdrs, by omega, ?_⟩, hp, ⟨init, last, hfr, hlast⟩, ?_⟩
  · rw [hfh']; simp only [givenSz]; rw [slice_size_trunc file fsize' hle]
  · have := wholeFrames_bound w.hdr.pageSize fsize' (Spec.wholeFrames w.hdr.pageSize fsize' - 1) (by omega) hn
    rwa [Nat.sub_add_cancel (by omega)] at this
  · intro f hfm
    have := frame_index_lt w'.frames hidx' f hfm
    unfold Frame.number; omega

/-! ### C05 end to end -/

theorem truncated_history_take (cfg : Config) (db : Database) (dbv : VersionIf) (file : Buf) (n : Nat)
    (hn : n ≤ file.size) (w w' : Wal)
    (hw : openWal none file = .ok w) (hw' : openWal none (file.slice 0 n) = .ok w')
    (vs : List (Version × VersionIf)) (hv : versionHistory cfg db dbv (some w) = .ok vs) :
    versionHistory cfg db dbv (some w') = .ok (vs.take ((groupFrames w'.frames [] []).1.length + 1)) := by
  by_cases h32 : 32 ≤ n
  · obtain ⟨T, hpre, hend, hK⟩ := openWal_trunc file n h32 hn w w' hw hw'
    exact history_trunc_core cfg db dbv w w' file n _ T hpre hend hK vs hv
  · rw [truncated_header_rejected none file n (by omega)] at hw'
    exact nomatch hw'

theorem truncated_history_prefix (cfg : Config) (db : Database) (dbv : VersionIf) (file : Buf) (n : Nat)
    (hn : n ≤ file.size) (w w' : Wal)
    (hw : openWal none file = .ok w) (hw' : openWal none (file.slice 0 n) = .ok w')
    (vs vs' : List (Version × VersionIf))
    (hv : versionHistory cfg db dbv (some w) = .ok vs) (hv' : versionHistory cfg db dbv (some w') = .ok vs') :
    vs' <+: vs := by
  rw [truncated_history_take cfg db dbv file n hn w w' hw hw' vs hv] at hv'
  injection hv' with hv'
  rw [← hv']
  exact List.take_prefix _ _

theorem truncated_history_pointwise (cfg : Config) (db : Database) (dbv : VersionIf) (file : Buf) (n : Nat)
    (hn : n ≤ file.size) (w w' : Wal)
    (hw : openWal none file = .ok w) (hw' : openWal none (file.slice 0 n) = .ok w')
    (vs vs' : List (Version × VersionIf))
    (hv : versionHistory cfg db dbv (some w) = .ok vs) (hv' : versionHistory cfg db dbv (some w') = .ok vs') :
    vs'.length ≤ vs.length ∧
    ∀ (i : Nat) (hi : i < vs'.length) (hi2 : i < vs.length),
      (vs'[i]).1 = (vs[i]).1 ∧
      (∀ p off len, (vs'[i]).2.getData p off len = (vs[i]).2.getData p off len) ∧
      (∀ p, (vs'[i]).2.pageVersion p = (vs[i]).2.pageVersion p ∧ (vs'[i]).2.pageOffset p = (vs[i]).2.pageOffset p) := by
  have hp := truncated_history_prefix cfg db dbv file n hn w w' hw hw' vs vs' hv hv'
  refine ⟨hp.length_le, ?_⟩
  intro i hi hi2
  have : vs'[i] = vs[i] := by
    obtain ⟨t, ht⟩ := hp
    subst ht
    rw [List.getElem_append_left hi]
  rw [this]
  exact ⟨rfl, fun _ _ _ => rfl, fun _ => ⟨rfl, rfl⟩⟩

/-! ### cutting exactly after a commit frame: the truncated pair is accepted -/

theorem scan_stuck (fh : FileH) (hdr : WalHeader) (l : List Nat) : ∀ (s s' : WalScan),
    s.invIdx ≠ [] → l.foldlM (walScanStep fh hdr) s = .ok s' → s'.valid = s.valid := by
  induction l with
  | nil => intro s s' _ h; simp only [List.foldlM_nil, pure, Except.pure, Except.ok.injEq] at h; subst h; rfl
  | cons a l ih =>
    intro s s' hne h
    rw [List.foldlM_cons] at h
    obtain ⟨s1, hs1, h2⟩ := bind_ok _ _ _ h
    obtain ⟨f, _, hcase⟩ := walScanStep_ok fh hdr s s1 a hs1
    rcases hcase with ⟨_, hv, _, hne1⟩ | ⟨_, _, hemp, _⟩
    · rw [ih s1 s' hne1 h2, hv]
    · exact absurd hemp hne

theorem scan_gap (fh : FileH) (h : WalHeader) (n : Nat) (st : WalScan)
    (hs : (List.range n).foldlM (walScanStep fh h) {} = .ok st) :
    ScanInv h n st ∧ (st.invIdx ≠ [] → st.valid.length < n) := by
  refine foldlM_range_induct (walScanStep fh h) {} (fun i s => ScanInv h i s ∧ (s.invIdx ≠ [] → s.valid.length < i))
    ⟨scanInv_init h, fun hne => absurd rfl hne⟩ ?_ n st hs
  intro i s s' hi hstep
  refine ⟨scanInv_step fh h i s s' hi.1 hstep, ?_⟩
  intro hne
  obtain ⟨f, _, hcase⟩ := walScanStep_ok fh h s s' i hstep
  rcases hcase with ⟨_, hv, _, _⟩ | ⟨_, _, _, _, _, hemp⟩
  · rw [hv]; have := hi.1.count; omega
  · exact absurd hemp hne

theorem header_size (file : Buf) (hdr : WalHeader)
    (h : parseWalHeader (file.slice 0 Generated.WAL_HEADER_LENGTH) = .ok hdr) : 32 ≤ file.size := by
  unfold parseWalHeader at h
  split at h
  · exact nomatch h
  · rename_i hsz
    simp only [Buf.slice, Generated.WAL_HEADER_LENGTH, ne_eq, Decidable.not_not] at hsz
    omega

theorem wholeFrames_exact (ps j : Nat) : Spec.wholeFrames ps (32 + j * (24 + ps)) = j := by
  unfold Spec.wholeFrames
  rw [Nat.add_sub_cancel_left, Nat.mul_div_cancel _ (by omega)]

theorem lastCommit_take (fs : List Frame) (hidx : fs.map Frame.index = List.range fs.length) (k : Nat) (f : Frame)
    (hf : fs[k]? = some f) (hc : f.isCommit = true) :
    lastCommitIndex (fs.take (k + 1)) = (((fs.take (k + 1)).length : Nat) : Int) - 1 := by
  have hk : k < fs.length := (List.getElem?_eq_some_iff.mp hf).1
  have hfi : f.index = k := by
    have h1 : (fs.map Frame.index)[k]? = some f.index := by rw [List.getElem?_map, hf]; rfl
    rw [hidx, List.getElem?_range hk] at h1
    injection h1 with h1; exact h1.symm
  rw [List.length_take, Nat.min_eq_left (by omega), List.take_add_one, hf]
  unfold lastCommitIndex
  simp only [Option.toList_some, List.reverse_append, List.reverse_singleton, List.singleton_append, List.find?_cons, hc, hfi]
  omega

theorem openWal_intro (file : Buf) (hdr : WalHeader) (st : WalScan)
    (hhdr : parseWalHeader (file.slice 0 Generated.WAL_HEADER_LENGTH) = .ok hdr)
    (hfold : (List.range (Int.tdiv ((file.size : Int) - Generated.WAL_HEADER_LENGTH)
          ((Generated.WAL_FRAME_HEADER_LENGTH : Int) + hdr.pageSize)).toNat).foldlM (walScanStep ⟨file.size, file⟩ hdr) {} = .ok st)
    (hne : st.valid ≠ []) (hlc : lastCommitIndex st.valid = (st.valid.length : Int) - 1) :
    ∃ w, openWal none file = .ok w ∧ w.frames = st.valid ∧ w.hdr = hdr := by
  unfold openWal
  simp only [bind, Except.bind, hhdr, hfold]
  cases hl : st.valid.getLast? with
  | none => exact absurd (List.getLast?_eq_none_iff.mp hl) hne
  | some x =>
    simp only
    rw [if_neg (by simpa using hlc)]
    exact ⟨_, rfl, rfl, rfl⟩

/-- a cut exactly after commit frame `j` (1-based, among the valid frames) is accepted by the WAL
reader, and its valid frames are the first `j` valid frames of the whole log -/
theorem truncated_at_commit_openWal (file : Buf) (w : Wal) (hw : openWal none file = .ok w)
    (j : Nat) (hj1 : 1 ≤ j) (hc : ∃ f, w.frames[j - 1]? = some f ∧ f.isCommit = true) :
    32 + j * (24 + w.hdr.pageSize) ≤ file.size ∧
    ∃ w', openWal none (file.slice 0 (32 + j * (24 + w.hdr.pageSize))) = .ok w' ∧ w'.frames = w.frames.take j := by
  obtain ⟨f, hf, hcm⟩ := hc
  obtain ⟨k, rfl⟩ : ∃ k, j = k + 1 := ⟨j - 1, by omega⟩
  rw [Nat.add_sub_cancel] at hf
  have hk : k < w.frames.length := (List.getElem?_eq_some_iff.mp hf).1
  obtain ⟨hdr, st, fsize, hfs, hhdr, hfold, _, _, hh, hfr, _, _⟩ := openWal_ok none file w hw
  have e1 : fsize = file.size := hfs
  subst e1
  have hsz := header_size file hdr hhdr
  rw [nFrames_nat _ _ hsz, Int.toNat_natCast] at hfold
  have invN := scanInv_of_fold _ _ _ _ hfold
  rw [hh]
  rw [hfr] at hk hf ⊢
  have hjN : k + 1 ≤ Spec.wholeFrames hdr.pageSize file.size := by have := invN.count; omega
  have hle : 32 + (k + 1) * (24 + hdr.pageSize) ≤ file.size := wholeFrames_bound _ _ k (by omega) hsz
  refine ⟨hle, ?_⟩
  obtain ⟨d, hd⟩ : ∃ d, Spec.wholeFrames hdr.pageSize file.size = (k + 1) + d := ⟨_, (Nat.add_sub_cancel' hjN).symm⟩
  rw [hd, List.range_add] at hfold
  obtain ⟨stj, hfj, hfrest⟩ := foldlM_append_ok _ _ _ _ _ hfold
  obtain ⟨invj, hgap⟩ := scan_gap _ _ _ _ hfj
  have hpre := scan_valid_prefix _ _ _ _ _ hfrest
  have hlenj : stj.valid.length = k + 1 := by
    by_cases he : stj.invIdx = []
    · exact invj.full he
    · have h1 := scan_stuck _ _ _ _ _ he hfrest
      have h2 := hgap he
      rw [h1] at hk; omega
  have hvj : stj.valid = st.valid.take (k + 1) := by
    rw [List.prefix_iff_eq_take] at hpre
    rw [hlenj] at hpre; exact hpre
  -- the truncated file
  have hn : 32 ≤ 32 + (k + 1) * (24 + hdr.pageSize) := by omega
  have hhdr' : parseWalHeader ((file.slice 0 (32 + (k + 1) * (24 + hdr.pageSize))).slice 0 Generated.WAL_HEADER_LENGTH) = .ok hdr := by
    simp only [Generated.WAL_HEADER_LENGTH] at hhdr ⊢
    rw [slice_slice file _ 0 32 hle (by omega) hn, hhdr]
  have hfold' : (List.range (Int.tdiv (((file.slice 0 (32 + (k + 1) * (24 + hdr.pageSize))).size : Int) - Generated.WAL_HEADER_LENGTH)
          ((Generated.WAL_FRAME_HEADER_LENGTH : Int) + hdr.pageSize)).toNat).foldlM
        (walScanStep ⟨(file.slice 0 (32 + (k + 1) * (24 + hdr.pageSize))).size, file.slice 0 (32 + (k + 1) * (24 + hdr.pageSize))⟩ hdr) {} = .ok stj := by
    rw [slice_size_trunc file _ hle, nFrames_nat _ _ hn, Int.toNat_natCast, wholeFrames_exact,
      foldlM_congr_mem _ (walScanStep ⟨file.size, file⟩ hdr) _ (fun i hi s =>
        walScanStep_trunc file _ i hdr s hle (by
          have := List.mem_range.mp hi
          have : (i + 1) * (24 + hdr.pageSize) ≤ (k + 1) * (24 + hdr.pageSize) := Nat.mul_le_mul_right _ (by omega)
          omega))]
    exact hfj
  have hne : stj.valid ≠ [] := by intro h; rw [h] at hlenj; simp at hlenj
  have hlc : lastCommitIndex stj.valid = (stj.valid.length : Int) - 1 := by
    rw [hvj]; exact lastCommit_take st.valid invN.idx k f hf hcm
  obtain ⟨w', hw', hfr', -⟩ := openWal_intro _ hdr stj hhdr' hfold' hne hlc
  exact ⟨w', hw', by rw [hfr', hvj]⟩

/-- non-vacuity of the end-to-end statement: at every cut exactly after a commit frame the
truncated pair is accepted and shows exactly the versions up to that commit -/
theorem truncated_history_success (cfg : Config) (db : Database) (dbv : VersionIf) (file : Buf) (w : Wal)
    (hw : openWal none file = .ok w)
    (vs : List (Version × VersionIf)) (hv : versionHistory cfg db dbv (some w) = .ok vs)
    (j : Nat) (hj1 : 1 ≤ j) (hc : ∃ f, w.frames[j - 1]? = some f ∧ f.isCommit = true) :
    ∃ w', openWal none (file.slice 0 (32 + j * (24 + w.hdr.pageSize))) = .ok w' ∧ w'.frames = w.frames.take j ∧
      versionHistory cfg db dbv (some w') = .ok (vs.take (((w.frames.take j).filter Frame.isCommit).length + 1)) := by
  obtain ⟨hle, w', hw', hfr'⟩ := truncated_at_commit_openWal file w hw j hj1 hc
  refine ⟨w', hw', hfr', ?_⟩
  rw [truncated_history_take cfg db dbv file _ hle w w' hw hw' vs hv, version_count, hfr']

/-! ### every version after the first is one commit record -/

theorem commit_record_committed (cfg : Config) (dbv : VersionIf) (wal : Wal) (number : Nat) (frames : List Frame)
    (prev : Version) (lastHdr : DbHeader) (lastSchema : MasterSchema) (lastRoot : List BPage) (enc : Nat)
    (ver : Version) (v : VersionIf)
    (h : makeCommitRecord cfg dbv wal number frames prev lastHdr lastSchema lastRoot enc = .ok (ver, v)) :
    ver.committed = true ∧ ver.sizeExact = true := by
  unfold makeCommitRecord at h
  split at h
  · exact nomatch h
  split at h
  · exact nomatch h
  split at h
  · exact nomatch h
  obtain ⟨⟨fd, committed, csize⟩, hr, h⟩ := bind_ok _ _ _ h
  simp only at h
  split at h
  · exact nomatch h
  obtain ⟨⟨ubt, ownHdr, rootMod⟩, -, h⟩ := bind_ok _ _ _ h
  simp only at h
  split at h
  · exact nomatch h
  obtain ⟨flags, -, h⟩ := bind_ok _ _ _ h
  obtain ⟨⟨rootTree, schema, ubt'⟩, -, h⟩ := bind_ok _ _ _ h
  simp only at h
  obtain ⟨fl, -, h⟩ := bind_ok _ _ _ h
  split at h
  · exact nomatch h
  obtain ⟨pm, -, h⟩ := bind_ok _ _ _ h
  have hfin : ∀ (x : Version × VersionIf) (c : Py (List (Nat × String))),
      (if cfg.storeInMemory = true then (do let _ ← c; pure x) else (pure x : Py _)) = .ok (ver, v) → x = (ver, v) := by
    intro x c hx
    split at hx
    · obtain ⟨_, -, hx⟩ := bind_ok _ _ _ hx
      exact Except.ok.inj hx
    · exact Except.ok.inj hx
  have hx := hfin _ _ h
  injection hx with hv1 hv2
  subst hv1
  exact ⟨rfl, rfl⟩

/-- version `k+1` of the running history is the commit record of group `k` -/
def RecInv (pre : List (List Frame)) (vs : List (Version × VersionIf)) : Prop :=
  ∀ (k : Nat) (ver : Version) (v : VersionIf), vs[k + 1]? = some (ver, v) →
    ∃ (g : List Frame) (fd : List (Nat × Frame)) (cs : Nat), pre[k]? = some g ∧ recordFrames g = .ok (fd, true, cs) ∧
      ver.updated = fd.map (·.1) ∧ ver.dbSize = cs ∧ ver.committed = true ∧ ver.sizeExact = true

theorem recInv_fold (cfg : Config) (dbv : VersionIf) (w : Wal)
    (gs : List (List Frame)) : ∀ (pre : List (List Frame)) (st st' : HSt),
    st.1.length = pre.length + 1 → RecInv pre st.1 → gs.foldlM (hStep cfg dbv w) st = .ok st' →
    RecInv (pre ++ gs) st'.1 := by
  induction gs with
  | nil =>
    intro pre st st' _ hi h
    simp only [List.foldlM_nil, pure, Except.pure, Except.ok.injEq] at h
    subst h
    rw [List.append_nil]; exact hi
  | cons g gs ih =>
    intro pre st st' hlen hi h
    rw [List.foldlM_cons] at h
    obtain ⟨st1, h1, h2⟩ := bind_ok _ _ _ h
    obtain ⟨pv, pvi, cv, cvi, hl, hm, hst⟩ := hStep_ok cfg dbv w st st1 g h1
    obtain ⟨fd, csize, hr, -, hsz, hup, -, -, -⟩ := commit_record_indices _ _ _ _ _ _ _ _ _ _ _ _ hm
    obtain ⟨hcom, hex⟩ := commit_record_committed _ _ _ _ _ _ _ _ _ _ _ _ hm
    have := ih (pre ++ [g]) st1 st' (by rw [hst]; simp [hlen]) ?_ h2
    · rwa [List.append_assoc] at this
    · intro k ver v hk
      rw [hst] at hk
      by_cases hlt : k + 1 < st.1.length
      · rw [List.getElem?_append_left hlt] at hk
        obtain ⟨g', fd', cs', hg', rest⟩ := hi k ver v hk
        exact ⟨g', fd', cs', by rw [List.getElem?_append_left (by omega)]; exact hg', rest⟩
      · have hk' : k + 1 = st.1.length := by
          have := (List.getElem?_eq_some_iff.mp hk).1
          simp only [List.length_append, List.length_singleton] at this
          omega
        rw [hk', List.getElem?_append_right (Nat.le_refl _)] at hk
        simp only [Nat.sub_self, List.getElem?_cons_zero, Option.some.injEq, Prod.mk.injEq] at hk
        obtain ⟨rfl, rfl⟩ := hk
        have hkp : k = pre.length := by omega
        refine ⟨g, fd, csize, ?_, hr, hup, hsz, hcom, hex⟩
        rw [hkp, List.getElem?_append_right (Nat.le_refl _)]; simp

/-- every version `k ≥ 1` of an accepted history is the commit record of the `k`-th group of valid
frames: a run of non-commit frames closed by its only commit frame, whose size field is the
version's database size; the pages it lists as updated are the pages of those frames; and every
frame its page→frame index points to lies in the first `k` groups -/
theorem history_versions_committed (cfg : Config) (db : Database) (dbv : VersionIf) (w : Wal)
    (vs : List (Version × VersionIf)) (h : versionHistory cfg db dbv (some w) = .ok vs) :
    (groupFrames w.frames [] []).2 = [] ∧
    ∀ (k : Nat) (ver : Version) (v : VersionIf), vs[k + 1]? = some (ver, v) →
      ∃ (init : List Frame) (last : Frame) (fd : List (Nat × Frame)),
        (groupFrames w.frames [] []).1[k]? = some (init ++ [last]) ∧
        last.isCommit = true ∧ (∀ f ∈ init, f.isCommit = false) ∧
        recordFrames (init ++ [last]) = .ok (fd, true, last.hdr.sizeAfterCommit) ∧
        ver.number = k + 1 ∧ ver.committed = true ∧ ver.sizeExact = true ∧
        ver.dbSize = last.hdr.sizeAfterCommit ∧ ver.updated = fd.map (·.1) ∧
        (∀ p, p ∈ ver.updated ↔ ∃ f ∈ init ++ [last], f.hdr.pageNumber = p) ∧
        (∀ p f, dictGet? ver.pfi p = some f →
          ∃ fr ∈ ((groupFrames w.frames [] []).1.take (k + 1)).flatten, fr.hdr.pageNumber = p ∧ f = fr.index + 1) := by
  have hidx := history_indices cfg db dbv w vs h
  rw [versionHistory_eq] at h
  obtain ⟨st', hf, h⟩ := bind_ok _ _ _ h
  split at h
  · exact nomatch h
  rename_i hrest
  simp only [pure, Except.pure, Except.ok.injEq] at h
  subst h
  refine ⟨by simpa using hrest, ?_⟩
  have inv := recInv_fold cfg dbv w _ [] _ st' rfl (by intro k ver v hk; simp at hk) hf
  rw [List.nil_append] at inv
  intro k ver v hk
  obtain ⟨g, fd, cs, hg, hr, hup, hsz, hcom, hex⟩ := inv k ver v hk
  obtain ⟨-, hgs, -⟩ := group_spec w.frames _ _ (rfl : groupFrames w.frames [] [] = ((groupFrames w.frames [] []).1, (groupFrames w.frames [] []).2))
  obtain ⟨init, last, rfl, hlast, hinit⟩ := hgs g (List.mem_of_getElem? hg)
  obtain ⟨fd', hr', -⟩ := record_accepts init last hinit hlast
  rw [hr] at hr'
  injection hr' with hr'
  injection hr' with hfd hcs
  injection hcs with _ hcs
  subst hcs
  obtain ⟨hnum, hpf⟩ := hidx.2 (k + 1) ver v hk
  refine ⟨init, last, fd, hg, hlast, hinit, hr, hnum, hcom, hex, hsz, hup, ?_, ?_⟩
  · intro p
    have hfd2 := recordFrames_ok_fd _ fd _ _ hr
    rw [hup, hfd2, mem_keys_iff, recDict_get, lastOf_isSome]
    simp only [List.any_eq_true, decide_eq_true_eq]
  · intro p f hpff
    rw [(hpf p).1] at hpff
    exact pfi_values_are_frame_numbers _ p f hpff

/-- the same for the history of a truncated log, with the group identified in the whole log -/
theorem truncated_history_versions_committed (cfg : Config) (db : Database) (dbv : VersionIf) (file : Buf) (n : Nat)
    (hn : n ≤ file.size) (w w' : Wal)
    (hw : openWal none file = .ok w) (hw' : openWal none (file.slice 0 n) = .ok w')
    (vs' : List (Version × VersionIf)) (hv' : versionHistory cfg db dbv (some w') = .ok vs') :
    w'.frames <+: w.frames ∧ (groupFrames w'.frames [] []).2 = [] ∧
    (groupFrames w'.frames [] []).1 <+: (groupFrames w.frames [] []).1 ∧
    ∀ (k : Nat) (ver : Version) (v : VersionIf), vs'[k + 1]? = some (ver, v) →
      ∃ (init : List Frame) (last : Frame) (fd : List (Nat × Frame)),
        (groupFrames w'.frames [] []).1[k]? = some (init ++ [last]) ∧
        (groupFrames w.frames [] []).1[k]? = some (init ++ [last]) ∧
        last.isCommit = true ∧ (∀ f ∈ init, f.isCommit = false) ∧
        (∀ f ∈ init ++ [last], f ∈ w.frames ∧ 32 + (f.index + 1) * (24 + w.hdr.pageSize) ≤ n) ∧
        recordFrames (init ++ [last]) = .ok (fd, true, last.hdr.sizeAfterCommit) ∧
        ver.number = k + 1 ∧ ver.committed = true ∧ ver.sizeExact = true ∧
        ver.dbSize = last.hdr.sizeAfterCommit ∧ ver.updated = fd.map (·.1) ∧
        (∀ p, p ∈ ver.updated ↔ ∃ f ∈ init ++ [last], f.hdr.pageNumber = p) ∧
        (∀ p f, dictGet? ver.pfi p = some f →
          ∃ fr ∈ ((groupFrames w.frames [] []).1.take (k + 1)).flatten, fr.hdr.pageNumber = p ∧ f = fr.index + 1) := by
  have h32 : 32 ≤ n := by
    by_cases h32 : 32 ≤ n
    · exact h32
    · rw [truncated_header_rejected none file n (by omega)] at hw'
      exact nomatch hw'
  obtain ⟨T, hpre, ⟨init0, last0, hfr0, hlast0⟩, hK⟩ := openWal_trunc file n h32 hn w w' hw hw'
  obtain ⟨hrest, hall⟩ := history_versions_committed cfg db dbv w' vs' hv'
  obtain ⟨t, ht⟩ := hpre
  have hgp := (group_prefix w'.frames t init0 last0 hfr0 hlast0).1
  rw [ht] at hgp
  refine ⟨⟨t, ht⟩, hrest, hgp, ?_⟩
  intro k ver v hk
  obtain ⟨init, last, fd, hg, h1, h2, h3, h4, h5, h6, h7, h8, h9, h10⟩ := hall k ver v hk
  obtain ⟨u, hu⟩ := hgp
  have hklt : k < (groupFrames w'.frames [] []).1.length := (List.getElem?_eq_some_iff.mp hg).1
  have hg2 : (groupFrames w.frames [] []).1[k]? = some (init ++ [last]) := by
    rw [← hu, List.getElem?_append_left hklt]; exact hg
  obtain ⟨hflat, -, -⟩ := group_spec w'.frames _ _ (rfl : groupFrames w'.frames [] [] = ((groupFrames w'.frames [] []).1, (groupFrames w'.frames [] []).2))
  rw [hrest, List.append_nil] at hflat
  refine ⟨init, last, fd, hg, hg2, h1, h2, ?_, h3, h4, h5, h6, h7, h8, h9, ?_⟩
  · intro f hf
    have hmem' : f ∈ w'.frames := by
      rw [← hflat]; exact List.mem_flatten.mpr ⟨_, List.mem_of_getElem? hg, hf⟩
    refine ⟨by rw [← ht]; exact List.mem_append_left _ hmem', ?_⟩
    have hb := hK f hmem'
    unfold Frame.number at hb
    have : (f.index + 1) * (24 + w.hdr.pageSize) ≤ Spec.wholeFrames w.hdr.pageSize n * (24 + w.hdr.pageSize) :=
      Nat.mul_le_mul_right _ hb
    have := T.Kn
    omega
  · intro p f hpf
    obtain ⟨fr, hfr, hrest2⟩ := h10 p f hpf
    refine ⟨fr, ?_, hrest2⟩
    rw [← hu, List.take_append_of_le_length (by omega)]
    exact hfr

/-! ### unconditional form: no assumption that the whole log's history is accepted -/

theorem hStep_frames_irrelevant (cfg : Config) (dbv : VersionIf) (w : Wal) (fs : List Frame) :
    hStep cfg dbv { w with frames := fs } = hStep cfg dbv w := by
  funext st g
  obtain ⟨vs, lh, ls, lrt, enc⟩ := st
  unfold hStep
  simp only
  cases hl : vs.getLast? with
  | none => rfl
  | some x =>
    obtain ⟨pv, pvi⟩ := x
    simp only
    rw [makeCommitRecord_congr cfg dbv w { w with frames := fs } vs.length g pv lh ls lrt enc rfl (fun _ _ _ _ => rfl)]

/-- the history of the truncated log is, as a computation (result or error), the history of the
whole file's log restricted to the frames below the cut -/
theorem truncated_history_eq_restricted (cfg : Config) (db : Database) (dbv : VersionIf) (file : Buf) (n : Nat)
    (hn : n ≤ file.size) (w w' : Wal)
    (hw : openWal none file = .ok w) (hw' : openWal none (file.slice 0 n) = .ok w') :
    versionHistory cfg db dbv (some w') = versionHistory cfg db dbv (some { w with frames := w'.frames }) := by
  have h32 : 32 ≤ n := by
    by_cases h32 : 32 ≤ n
    · exact h32
    · rw [truncated_header_rejected none file n (by omega)] at hw'
      exact nomatch hw'
  obtain ⟨T, -, ⟨init0, last0, hfr0, hlast0⟩, hK⟩ := openWal_trunc file n h32 hn w w' hw hw'
  have hrest := group_ends_commit init0 last0 hlast0
  rw [← hfr0] at hrest
  have hspec := group_spec w'.frames _ _ (rfl : groupFrames w'.frames [] [] = ((groupFrames w'.frames [] []).1, (groupFrames w'.frames [] []).2))
  rw [hrest, List.append_nil] at hspec
  have hbound : ∀ g ∈ (groupFrames w'.frames [] []).1, ∀ f ∈ g, f.number ≤ Spec.wholeFrames w.hdr.pageSize n := by
    intro g hg f hf
    apply hK f
    rw [← hspec.1]
    exact List.mem_flatten.mpr ⟨g, hg, hf⟩
  rw [versionHistory_eq, versionHistory_eq, hStep_frames_irrelevant cfg dbv w w'.frames,
    fold_trunc cfg dbv w w' file n _ T _ _ hbound (by
      intro pv pvi hl
      simp only [List.getLast?_singleton, Option.some.injEq, Prod.mk.injEq] at hl
      rw [← hl.1]; exact pfiBound_nil _)]

end SqliteDissect.Proofs.WalTruncate
