/-
Page level of C01 / C14: a b-tree page laid out as SQLite lays it out (`Spec.PageLaidOut`) is
parsed by `parseBTree` into exactly its cells.
-/
import SqliteDissect.Spec.PageWrite
import SqliteDissect.Proofs.BufCongr
import SqliteDissect.Proofs.CellParse
import SqliteDissect.Proofs.Layout
namespace SqliteDissect.Proofs.PageParse
open SqliteDissect SqliteDissect.Model
open SqliteDissect.Proofs.Codec SqliteDissect.Proofs.Record SqliteDissect.Proofs.CellArith
open SqliteDissect.Proofs.CellChain SqliteDissect.Proofs.CellParse SqliteDissect.Proofs.BufCongr
open SqliteDissect.Spec (CellSpec PageLayout PageLaidOut StoredAt)

/-! ### bytes stored at an offset -/

theorem storedAt_split (bytes : List Nat) (off : Nat) (x : List Nat) (hx : x ≠ [])
    (h : StoredAt bytes off x) :
    bytes = bytes.take off ++ x ++ bytes.drop (off + x.length) ∧ (bytes.take off).length = off ∧
      off + x.length ≤ bytes.length := by
  unfold StoredAt at h
  have hl := congrArg List.length h
  rw [List.length_take, List.length_drop] at hl
  have hpos : 0 < x.length := List.length_pos_iff.2 hx
  have hle : off + x.length ≤ bytes.length := by omega
  refine ⟨?_, by rw [List.length_take]; omega, hle⟩
  have e1 : bytes = bytes.take off ++ bytes.drop off := (List.take_append_drop off bytes).symm
  have e2 : bytes.drop off = (bytes.drop off).take x.length ++ (bytes.drop off).drop x.length :=
    (List.take_append_drop x.length (bytes.drop off)).symm
  rw [h, List.drop_drop] at e2
  rw [List.append_assoc, ← e2]
  exact e1

theorem be16_length (n : Nat) : (Spec.be16 n).length = 2 := rfl

theorem unpackAt_be16 (b : Buf) (p q : List Nat) (n : Nat) (hn : n < 65536)
    (h : b.toList = p ++ Spec.be16 n ++ q) : unpackAt b (p.length : Int) 2 = .ok n := by
  have hsz : p.length + 2 ≤ b.size := by
    rw [← toList_length, h]; simp only [List.length_append, be16_length]; omega
  have r0 := rd_mid b p _ q h 0 (by rw [be16_length]; omega)
  have r1 := rd_mid b p _ q h 1 (by rw [be16_length]; omega)
  unfold unpackAt
  have e : ((p.length : Int) + ((2 : Nat) : Int)) = ((p.length + 2 : Nat) : Int) := by omega
  simp only [e]
  rw [pySlice_nat b p.length (p.length + 2) hsz (by omega)]
  have h1 : min p.length b.size = p.length := by omega
  have h2 : min (p.length + 2) b.size = p.length + 2 := by omega
  have hs : (b.slice p.length (p.length + 2)).size = 2 := by
    simp only [Buf.slice, h1, h2]; omega
  rw [if_pos hs]
  simp only [Buf.beN, Buf.slice, h1, Nat.zero_add, r0, r1, Spec.be16,
    List.getElem_cons_zero, List.getElem_cons_succ]
  congr 1
  omega

/-- a u16 stored at `off` is what `unpackAt` reads there -/
theorem unpackAt_stored16 (b : Buf) (bytes : List Nat) (hb : b.toList = bytes) (off n : Nat)
    (hn : n < 65536) (h : StoredAt bytes off (Spec.be16 n)) : unpackAt b (off : Int) 2 = .ok n := by
  obtain ⟨e, hl, _⟩ := storedAt_split bytes off _ (by simp [Spec.be16]) h
  have := unpackAt_be16 b (bytes.take off) _ n hn (by rw [hb]; exact e)
  rwa [hl] at this

theorem unpackAt_stored32 (b : Buf) (bytes : List Nat) (hb : b.toList = bytes) (off n : Nat)
    (hn : n < 2 ^ 32) (h : StoredAt bytes off (Spec.be32 n)) : unpackAt b (off : Int) 4 = .ok n := by
  obtain ⟨e, hl, _⟩ := storedAt_split bytes off _ (by simp [Spec.be32]) h
  have := unpackAt_be32 b (bytes.take off) _ n hn (by rw [hb]; exact e)
  rwa [hl] at this

/-- a prefix / an inner part of something stored is stored -/
theorem storedAt_append (bytes : List Nat) (off : Nat) (x y : List Nat)
    (h : StoredAt bytes off (x ++ y)) :
    StoredAt bytes off x ∧ StoredAt bytes (off + x.length) y := by
  unfold StoredAt at h ⊢
  rw [List.length_append] at h
  constructor
  · have := congrArg (List.take x.length) h
    rw [List.take_take, List.take_left] at this
    rwa [Nat.min_eq_left (by omega)] at this
  · have := congrArg (List.drop x.length) h
    rw [List.drop_left, List.drop_take, List.drop_drop] at this
    rwa [Nat.add_sub_cancel_left] at this

theorem rd_stored (b : Buf) (bytes : List Nat) (hb : b.toList = bytes) (off x : Nat)
    (h : StoredAt bytes off [x]) : off < b.size ∧ b.rd off = x := by
  obtain ⟨e, hl, hle⟩ := storedAt_split bytes off _ (by simp) h
  have := rd_mid b (bytes.take off) [x] _ (by rw [hb]; exact e) 0 (by simp)
  rw [hl] at this
  simp only [List.length_singleton] at hle
  refine ⟨by rw [← toList_length, hb]; omega, ?_⟩
  simpa using this

/-! ### cells -/

/-- size the page constructor adds up for a cell -/
def cellSz (c : Cell) : Int :=
  if c.kind ≠ .tableInterior ∧ c.hasOverflow then c.end_ - c.start
  else max c.byteSize ((Generated.MINIMUM_CELL_ALLOCATION_SIZE : Nat) : Int)

/-- a cell with an overflow pointer is at least 4 bytes long -/
theorem ov_len (u : Nat) (s : CellSpec) (cols : List Spec.Col) (hcols : s.cols = some cols)
    (hov : Spec.localSize u (s.maxLocal u) (Spec.encodeRecord cols).length < (Spec.encodeRecord cols).length) :
    4 ≤ (s.bytes u).length := by
  cases s with
  | tableLeaf r c o =>
    cases hcols
    have hov' : Spec.localSize u (Spec.maxLeaf u) (Spec.encodeRecord cols).length
        < (Spec.encodeRecord cols).length := hov
    show 4 ≤ (Spec.writeTableLeafCell u r (Spec.encodeRecord cols) (o.headD 0)).length
    unfold Spec.writeTableLeafCell
    simp only [hov', if_true, List.length_append, be32_length]
    omega
  | tableInterior lc k => cases hcols
  | indexLeaf c o =>
    cases hcols
    have hov' : Spec.localSize u (Spec.maxLocalIndex u) (Spec.encodeRecord cols).length
        < (Spec.encodeRecord cols).length := hov
    show 4 ≤ (Spec.writeIndexLeafCell u (Spec.encodeRecord cols) (o.headD 0)).length
    unfold Spec.writeIndexLeafCell
    simp only [hov', if_true, List.length_append, be32_length]
    omega
  | indexInterior lc c o =>
    cases hcols
    show 4 ≤ (Spec.be32 lc ++ Spec.writeIndexLeafCell u (Spec.encodeRecord cols) (o.headD 0)).length
    simp only [List.length_append, be32_length]
    omega

theorem reportedRecord_eq (cols : List Spec.Col) :
    Spec.reportedRecord cols = ⟨(Spec.hdrSize (Spec.typeBytes cols).length : Int),
      Spec.varintLen (Spec.hdrSize (Spec.typeBytes cols).length),
      cols.map expectedCol, Spec.encodeRecord cols⟩ := rfl

/-- from `Good` to the specification-level report -/
theorem good_reported (u : Nat) (s : CellSpec) (c : Cell) (index start : Nat) (cols : List Spec.Col)
    (hcols : s.cols = some cols) (hk : s.kind ≠ .tableInterior)
    (hg : Good c s.kind index start (s.bytes u) s.leftChild s.rowid cols
      (Spec.localSize u (s.maxLocal u) (Spec.encodeRecord cols).length) s.ovfl) :
    c.index = index ∧ c.start = start ∧ s.ReportedAs u c ∧ cellSz c = ((s.allocSize u : Nat) : Int) := by
  obtain ⟨g1, g2, g3, g4, g5, g6, g7, g8, g9, g10, g11, g12, g13⟩ := hg
  have hpay : s.payload = Spec.encodeRecord cols := by unfold CellSpec.payload; rw [hcols]
  refine ⟨g2, g3, ⟨g1, by rw [g10, g3], g4, g5, by rw [g6, hcols]; rfl, by rw [g7, hcols]; rfl, g9,
    by rw [g12, hcols]; rfl, ?_⟩, ?_⟩
  · rw [g13]; unfold CellSpec.overflowBytes; rw [hpay]
  · unfold cellSz
    rw [g1, g8, g10, g11, g3]
    unfold CellSpec.allocSize
    simp only [Generated.MINIMUM_CELL_ALLOCATION_SIZE]
    by_cases hov : Spec.localSize u (s.maxLocal u) (Spec.encodeRecord cols).length < (Spec.encodeRecord cols).length
    · have := ov_len u s cols hcols hov
      simp only [hov, decide_true, and_true, ne_eq, hk, not_false_eq_true, if_true]; omega
    · simp only [hov, decide_false, and_false, if_false, Bool.false_eq_true]; omega

theorem table_leaf_cell_good (v : VersionIf) (hu : 512 ≤ v.pageSize)
    (cols : List Spec.Col) (hv : ∀ c ∈ cols, Spec.ValidCol c)
    (hn : (Spec.typeBytes cols).length + 3 < 2 ^ 21)
    (rowid : Int) (hr1 : -(2 ^ 63 : Int) ≤ rowid) (hr2 : rowid < (2 ^ 63 : Int))
    (hp : (Spec.encodeRecord cols).length < 2 ^ 63)
    (pgs : List Nat) (hpg : ∀ p ∈ pgs, p < 2 ^ 32)
    (pre post : List Nat) (index : Nat)
    (hchain : Spec.ChainLaidOut v pgs ((Spec.encodeRecord cols).drop
        (Spec.localSize v.pageSize (Spec.maxLeaf v.pageSize) (Spec.encodeRecord cols).length))) :
    ∃ c, parseCellLocal v .tableLeaf
          (Buf.ofList (pre ++ Spec.writeTableLeafCell v.pageSize rowid (Spec.encodeRecord cols) (pgs.headD 0) ++ post))
          index pre.length = .ok c ∧
      Good c .tableLeaf index pre.length
        (Spec.writeTableLeafCell v.pageSize rowid (Spec.encodeRecord cols) (pgs.headD 0)) none (some rowid) cols
        (Spec.localSize v.pageSize (Spec.maxLeaf v.pageSize) (Spec.encodeRecord cols).length) pgs := by
  have hlim : (if CellKind.tableLeaf = .tableLeaf then (v.pageSize : Int) - 35 else payloadConst v.pageSize 64)
      = (Spec.maxLeaf v.pageSize : Int) := by
    rw [if_pos rfl]; unfold Spec.maxLeaf; omega
  obtain ⟨c, hc, hgood⟩ := payload_cell v hu .tableLeaf (Spec.maxLeaf v.pageSize) hlim
    (by unfold Spec.maxLeaf; exact (minLocal_le v.pageSize hu).1) cols hv hn pgs hpg pre
    (Spec.putVarint (Spec.encodeRecord cols).length ++ Spec.putVarint (Spec.toU64 rowid)) post index none
    (some rowid) hchain
  have hcell : Spec.writeTableLeafCell v.pageSize rowid (Spec.encodeRecord cols) (pgs.headD 0)
      = Spec.putVarint (Spec.encodeRecord cols).length ++ Spec.putVarint (Spec.toU64 rowid) ++
        (Spec.encodeRecord cols).take (Spec.localSize v.pageSize (Spec.maxLeaf v.pageSize) (Spec.encodeRecord cols).length) ++
        (if Spec.localSize v.pageSize (Spec.maxLeaf v.pageSize) (Spec.encodeRecord cols).length < (Spec.encodeRecord cols).length
          then Spec.be32 (pgs.headD 0) else []) := rfl
  rw [hcell]
  refine ⟨c, ?_, hgood⟩
  generalize hE : Spec.encodeRecord cols = enc at *
  generalize hB : Spec.localSize v.pageSize (Spec.maxLeaf v.pageSize) enc.length = b at *
  generalize hT : (if b < enc.length then Spec.be32 (pgs.headD 0) else []) = ptr at *
  have hP : enc.length < 2 ^ 63 := hp
  have hd1 := decodeVarint_at
    (Buf.ofList (pre ++ (Spec.putVarint enc.length ++ Spec.putVarint (Spec.toU64 rowid) ++ enc.take b ++ ptr) ++ post))
    pre (Spec.putVarint (Spec.toU64 rowid) ++ enc.take b ++ ptr ++ post) enc.length
    (by have : (2 : Nat) ^ 63 < 2 ^ 64 := by decide
        omega)
    (by rw [ofList_toList]; simp only [List.append_assoc])
  have hd2 := decodeVarint_at
    (Buf.ofList (pre ++ (Spec.putVarint enc.length ++ Spec.putVarint (Spec.toU64 rowid) ++ enc.take b ++ ptr) ++ post))
    (pre ++ Spec.putVarint enc.length) (enc.take b ++ ptr ++ post) (Spec.toU64 rowid) (toU64_lt _)
    (by rw [ofList_toList]; simp only [List.append_assoc])
  rw [toI64_small _ hP] at hd1
  rw [toI64_toU64 rowid hr1 hr2, List.length_append, spec_put_length] at hd2
  rw [List.length_append, spec_put_length, spec_put_length] at hc
  unfold parseCellLocal
  simp only [hd1, hd2, bind, Except.bind]
  exact hc

theorem index_lim (v : VersionIf) (hu : 512 ≤ v.pageSize) (kind : CellKind) (hk : kind ≠ .tableLeaf) :
    (if kind = .tableLeaf then (v.pageSize : Int) - 35 else payloadConst v.pageSize 64)
      = (Spec.maxLocalIndex v.pageSize : Int) := by
  rw [if_neg hk]; exact (payload_constants v.pageSize hu).2

theorem index_leaf_cell_good (v : VersionIf) (hu : 512 ≤ v.pageSize)
    (cols : List Spec.Col) (hv : ∀ c ∈ cols, Spec.ValidCol c)
    (hn : (Spec.typeBytes cols).length + 3 < 2 ^ 21)
    (hp : (Spec.encodeRecord cols).length < 2 ^ 63)
    (pgs : List Nat) (hpg : ∀ p ∈ pgs, p < 2 ^ 32)
    (pre post : List Nat) (index : Nat)
    (hchain : Spec.ChainLaidOut v pgs ((Spec.encodeRecord cols).drop
        (Spec.localSize v.pageSize (Spec.maxLocalIndex v.pageSize) (Spec.encodeRecord cols).length))) :
    ∃ c, parseCellLocal v .indexLeaf
          (Buf.ofList (pre ++ Spec.writeIndexLeafCell v.pageSize (Spec.encodeRecord cols) (pgs.headD 0) ++ post))
          index pre.length = .ok c ∧
      Good c .indexLeaf index pre.length
        (Spec.writeIndexLeafCell v.pageSize (Spec.encodeRecord cols) (pgs.headD 0)) none none cols
        (Spec.localSize v.pageSize (Spec.maxLocalIndex v.pageSize) (Spec.encodeRecord cols).length) pgs := by
  obtain ⟨c, hc, hgood⟩ := payload_cell v hu .indexLeaf (Spec.maxLocalIndex v.pageSize)
    (index_lim v hu _ (by decide))
    (minLocal_le v.pageSize hu).2 cols hv hn pgs hpg pre
    (Spec.putVarint (Spec.encodeRecord cols).length) post index none none hchain
  have hcell : Spec.writeIndexLeafCell v.pageSize (Spec.encodeRecord cols) (pgs.headD 0)
      = Spec.putVarint (Spec.encodeRecord cols).length ++
        (Spec.encodeRecord cols).take (Spec.localSize v.pageSize (Spec.maxLocalIndex v.pageSize) (Spec.encodeRecord cols).length) ++
        (if Spec.localSize v.pageSize (Spec.maxLocalIndex v.pageSize) (Spec.encodeRecord cols).length < (Spec.encodeRecord cols).length
          then Spec.be32 (pgs.headD 0) else []) := rfl
  rw [hcell]
  refine ⟨c, ?_, hgood⟩
  generalize hE : Spec.encodeRecord cols = enc at *
  generalize hB : Spec.localSize v.pageSize (Spec.maxLocalIndex v.pageSize) enc.length = b at *
  generalize hT : (if b < enc.length then Spec.be32 (pgs.headD 0) else []) = ptr at *
  have hP : enc.length < 2 ^ 63 := hp
  have hd1 := decodeVarint_at
    (Buf.ofList (pre ++ (Spec.putVarint enc.length ++ enc.take b ++ ptr) ++ post))
    pre (enc.take b ++ ptr ++ post) enc.length
    (by have : (2 : Nat) ^ 63 < 2 ^ 64 := by decide
        omega)
    (by rw [ofList_toList]; simp only [List.append_assoc])
  rw [toI64_small _ hP] at hd1
  rw [spec_put_length] at hc
  unfold parseCellLocal
  simp only [hd1, bind, Except.bind]
  exact hc

theorem index_interior_cell_good (v : VersionIf) (hu : 512 ≤ v.pageSize)
    (lc : Nat) (hlc0 : lc ≠ 0) (hlc : lc < 2 ^ 32)
    (cols : List Spec.Col) (hv : ∀ c ∈ cols, Spec.ValidCol c)
    (hn : (Spec.typeBytes cols).length + 3 < 2 ^ 21)
    (hp : (Spec.encodeRecord cols).length < 2 ^ 63)
    (pgs : List Nat) (hpg : ∀ p ∈ pgs, p < 2 ^ 32)
    (pre post : List Nat) (index : Nat)
    (hchain : Spec.ChainLaidOut v pgs ((Spec.encodeRecord cols).drop
        (Spec.localSize v.pageSize (Spec.maxLocalIndex v.pageSize) (Spec.encodeRecord cols).length))) :
    ∃ c, parseCellLocal v .indexInterior
          (Buf.ofList (pre ++ (Spec.be32 lc ++ Spec.writeIndexLeafCell v.pageSize (Spec.encodeRecord cols) (pgs.headD 0)) ++ post))
          index pre.length = .ok c ∧
      Good c .indexInterior index pre.length
        (Spec.be32 lc ++ Spec.writeIndexLeafCell v.pageSize (Spec.encodeRecord cols) (pgs.headD 0)) (some lc) none cols
        (Spec.localSize v.pageSize (Spec.maxLocalIndex v.pageSize) (Spec.encodeRecord cols).length) pgs := by
  obtain ⟨c, hc, hgood⟩ := payload_cell v hu .indexInterior (Spec.maxLocalIndex v.pageSize)
    (index_lim v hu _ (by decide))
    (minLocal_le v.pageSize hu).2 cols hv hn pgs hpg pre
    (Spec.be32 lc ++ Spec.putVarint (Spec.encodeRecord cols).length) post index (some lc) none hchain
  have hcell : Spec.be32 lc ++ Spec.writeIndexLeafCell v.pageSize (Spec.encodeRecord cols) (pgs.headD 0)
      = Spec.be32 lc ++ Spec.putVarint (Spec.encodeRecord cols).length ++
        (Spec.encodeRecord cols).take (Spec.localSize v.pageSize (Spec.maxLocalIndex v.pageSize) (Spec.encodeRecord cols).length) ++
        (if Spec.localSize v.pageSize (Spec.maxLocalIndex v.pageSize) (Spec.encodeRecord cols).length < (Spec.encodeRecord cols).length
          then Spec.be32 (pgs.headD 0) else []) := by
    unfold Spec.writeIndexLeafCell
    simp only [List.append_assoc]
  rw [hcell]
  refine ⟨c, ?_, hgood⟩
  generalize hE : Spec.encodeRecord cols = enc at *
  generalize hB : Spec.localSize v.pageSize (Spec.maxLocalIndex v.pageSize) enc.length = b at *
  generalize hT : (if b < enc.length then Spec.be32 (pgs.headD 0) else []) = ptr at *
  have hP : enc.length < 2 ^ 63 := hp
  have hl := unpackAt_be32
    (Buf.ofList (pre ++ (Spec.be32 lc ++ Spec.putVarint enc.length ++ enc.take b ++ ptr) ++ post))
    pre (Spec.putVarint enc.length ++ enc.take b ++ ptr ++ post) lc hlc
    (by rw [ofList_toList]; simp only [List.append_assoc])
  have hd1 := decodeVarint_at
    (Buf.ofList (pre ++ (Spec.be32 lc ++ Spec.putVarint enc.length ++ enc.take b ++ ptr) ++ post))
    (pre ++ Spec.be32 lc) (enc.take b ++ ptr ++ post) enc.length
    (by have : (2 : Nat) ^ 63 < 2 ^ 64 := by decide
        omega)
    (by rw [ofList_toList]; simp only [List.append_assoc])
  rw [toI64_small _ hP, List.length_append, be32_length] at hd1
  rw [List.length_append, be32_length, spec_put_length] at hc
  unfold parseCellLocal
  have hg4 : Generated.LEFT_CHILD_POINTER_BYTE_LENGTH = 4 := rfl
  simp only [hg4, hl, hd1, bind, Except.bind, hc, hlc0, if_false, pure, Except.pure]

/-- table interior cell: left child and integer key -/
theorem table_interior_cell (b : Buf) (pre post : List Nat) (lc : Nat) (hlc0 : lc ≠ 0) (hlc : lc < 2 ^ 32)
    (key : Int) (hk1 : -(2 ^ 63 : Int) ≤ key) (hk2 : key < (2 ^ 63 : Int))
    (v : VersionIf) (index : Nat)
    (hb : b.toList = pre ++ (Spec.be32 lc ++ Spec.putVarint (Spec.toU64 key)) ++ post) :
    ∃ c, parseCellLocal v .tableInterior b index pre.length = .ok c ∧
      c.kind = .tableInterior ∧ c.index = index ∧ c.start = pre.length ∧
      c.end_ = ((pre.length + (Spec.be32 lc ++ Spec.putVarint (Spec.toU64 key)).length : Nat) : Int) ∧
      c.byteSize = ((Spec.be32 lc ++ Spec.putVarint (Spec.toU64 key)).length : Int) ∧
      c.leftChild = some lc ∧ c.rowid = some key ∧ (c.payloadSize = none ∧ c.bytesOnFirst = none) ∧
      c.overflowPages = [] ∧
      c.record = none ∧ c.hasOverflow = false ∧
      c.digest = Spec.be32 lc ++ Spec.putVarint (Spec.toU64 key) := by
  have hl := unpackAt_be32 b pre (Spec.putVarint (Spec.toU64 key) ++ post) lc hlc
    (by rw [hb]; simp only [List.append_assoc])
  have hd := decodeVarint_at b (pre ++ Spec.be32 lc) post (Spec.toU64 key) (toU64_lt _)
    (by rw [hb]; simp only [List.append_assoc])
  rw [toI64_toU64 key hk1 hk2, List.length_append, be32_length] at hd
  have hsz : pre.length + (4 + Spec.varintLen (Spec.toU64 key)) ≤ b.size := by
    rw [← toList_length, hb]
    simp only [List.length_append, be32_length, spec_put_length]; omega
  have hg4 : Generated.LEFT_CHILD_POINTER_BYTE_LENGTH = 4 := rfl
  have hdig : (pySlice b (pre.length : Int)
      ((pre.length : Int) + (((4 : Nat) : Int) + ((Spec.varintLen (Spec.toU64 key) : Nat) : Int)))).toList
      = Spec.be32 lc ++ Spec.putVarint (Spec.toU64 key) := by
    have e : (pre.length : Int) + (((4 : Nat) : Int) + ((Spec.varintLen (Spec.toU64 key) : Nat) : Int))
        = ((pre.length + (4 + Spec.varintLen (Spec.toU64 key)) : Nat) : Int) := by omega
    rw [e, pySlice_toList b _ _ (by omega) hsz, hb, List.append_assoc, List.drop_left,
      Nat.add_sub_cancel_left]
    have : 4 + Spec.varintLen (Spec.toU64 key) = (Spec.be32 lc ++ Spec.putVarint (Spec.toU64 key)).length := by
      simp only [List.length_append, be32_length, spec_put_length]
    rw [this, List.take_left]
  unfold parseCellLocal
  simp only [hg4, hl, hd, bind, Except.bind, hlc0, if_false, pure, Except.pure]
  refine ⟨_, rfl, rfl, rfl, rfl, ?_, ?_, rfl, rfl, ⟨rfl, rfl⟩, rfl, rfl, rfl, hdig⟩
  · simp only [List.length_append, be32_length, spec_put_length]; omega
  · simp only [List.length_append, be32_length, spec_put_length]; omega


theorem storedAt_split' (bytes : List Nat) (off : Nat) (x : List Nat) (hx : x ≠ [])
    (h : StoredAt bytes off x) : ∃ pre post, bytes = pre ++ x ++ post ∧ pre.length = off :=
  ⟨_, _, (storedAt_split bytes off x hx h).1, (storedAt_split bytes off x hx h).2.1⟩

theorem putVarint_ne_nil (u : Nat) : Spec.putVarint u ≠ [] := by
  intro h
  have := spec_put_length u
  have hp := varintLen_pos u
  rw [h] at this
  simp only [List.length_nil] at this
  omega

theorem cellBytes_ne_nil (u : Nat) (s : CellSpec) : s.bytes u ≠ [] := by
  intro h
  have hl := congrArg List.length h
  have hvp := varintLen_pos
  cases s <;>
    simp only [CellSpec.bytes, Spec.writeTableLeafCell, Spec.writeIndexLeafCell, List.length_append,
      be32_length, spec_put_length, List.length_nil] at hl <;>
    first
      | (have := hvp (Spec.encodeRecord ‹List Spec.Col›).length; omega)
      | (have := hvp (Spec.toU64 ‹Int›); omega)

/-- every cell SQLite can write, stored anywhere in the page, is parsed to what the
specification says is reported for it -/
theorem cell_reported (v : VersionIf) (hu : 512 ≤ v.pageSize) (s : CellSpec) (hv : s.Valid v)
    (page : Buf) (bytes : List Nat) (hb : page.toList = bytes) (index start : Nat)
    (hst : StoredAt bytes start (s.bytes v.pageSize)) :
    ∃ c, parseCellLocal v s.kind page index start = .ok c ∧ c.index = index ∧ c.start = start ∧
      s.ReportedAs v.pageSize c ∧ cellSz c = ((s.allocSize v.pageSize : Nat) : Int) := by
  obtain ⟨pre, post, e, hl⟩ := storedAt_split' bytes start _ (cellBytes_ne_nil _ s) hst
  obtain ⟨hvc, hvr, hvl, hvo, hvch⟩ := hv
  subst hl
  rw [parseCellLocal_ofList v _ page bytes hb, e]
  cases s with
  | tableLeaf rowid cols ovfl =>
    obtain ⟨h1, h2, h3⟩ := hvc cols rfl
    obtain ⟨r1, r2⟩ := hvr rowid rfl
    obtain ⟨c, hc, hg⟩ := table_leaf_cell_good v hu cols h1 h2 rowid r1 r2 h3 ovfl hvo pre post index hvch
    exact ⟨c, hc, good_reported v.pageSize (.tableLeaf rowid cols ovfl) c index pre.length cols rfl
      (by simp [CellSpec.kind]) hg⟩
  | tableInterior lc key =>
    obtain ⟨r1, r2⟩ := hvr key rfl
    obtain ⟨l1, l2⟩ := hvl lc rfl
    obtain ⟨c, hc, g1, g2, g3, g4, g5, g6, g7, g8, g9, g10, g11, g12⟩ :=
      table_interior_cell (Buf.ofList (pre ++ (Spec.be32 lc ++ Spec.putVarint (Spec.toU64 key)) ++ post))
        pre post lc l1 l2 key r1 r2 v index (by rw [ofList_toList])
    refine ⟨c, hc, g2, g3, ⟨g1, by rw [g4, g3]; rfl, g6, g7, g8.1, g8.2, by rw [g9]; rfl, g10, ?_⟩, ?_⟩
    · rw [g12]
      show _ = _ ++ List.drop _ []
      simp only [List.drop_nil, List.append_nil]; rfl
    · unfold cellSz CellSpec.allocSize
      rw [g1, g5]
      simp only [ne_eq, not_true_eq_false, false_and, if_false, Generated.MINIMUM_CELL_ALLOCATION_SIZE,
        CellSpec.bytes]
      omega
  | indexLeaf cols ovfl =>
    obtain ⟨h1, h2, h3⟩ := hvc cols rfl
    obtain ⟨c, hc, hg⟩ := index_leaf_cell_good v hu cols h1 h2 h3 ovfl hvo pre post index hvch
    exact ⟨c, hc, good_reported v.pageSize (.indexLeaf cols ovfl) c index pre.length cols rfl
      (by simp [CellSpec.kind]) hg⟩
  | indexInterior lc cols ovfl =>
    obtain ⟨h1, h2, h3⟩ := hvc cols rfl
    obtain ⟨l1, l2⟩ := hvl lc rfl
    obtain ⟨c, hc, hg⟩ := index_interior_cell_good v hu lc l1 l2 cols h1 h2 h3 ovfl hvo pre post index hvch
    exact ⟨c, hc, good_reported v.pageSize (.indexInterior lc cols ovfl) c index pre.length cols rfl
      (by simp [CellSpec.kind]) hg⟩


/-! ### the page header -/

theorem typeByte_ne_53 (k : PageType) : Spec.typeByte k ≠ 0x53 := by cases k <;> decide

theorem head_stored (bytes : List Nat) (x : Nat) (h : bytes.head? = some x) : StoredAt bytes 0 [x] := by
  cases bytes with
  | nil => simp at h
  | cons a t =>
    simp only [List.head?_cons, Option.some.injEq] at h
    subst h
    simp [StoredAt]

/-- first freeblock offset written in the header -/
def firstFb (L : PageLayout) : Nat := (L.freeblocks.map (·.1)).headD 0

/-- bounds that follow from the layout: everything the header and the pointer array store fits
its field -/
theorem layout_bounds (u : Nat) (hu : u ≤ 65536) (bytes : List Nat) (L : PageLayout)
    (hl : PageLaidOut u bytes L) :
    firstFb L < 65536 ∧ L.cells.length < 65536 ∧ 0 < L.contentStart ∧ L.contentStart ≤ 65536 ∧
      (∀ p ∈ L.ptrs, p < 65536) ∧ (∀ f ∈ L.freeblocks, f.1 ≠ 0 ∧ f.1 < 65536 ∧ f.2 < 65536) := by
  have hcs := hl.layout.cs_le
  have hgap := hl.gap
  have hh : 8 ≤ Spec.pageHdrLen L.kind := by unfold Spec.pageHdrLen; split <;> omega
  have hfb : ∀ f ∈ L.freeblocks, f.1 ≠ 0 ∧ f.1 < 65536 ∧ f.2 < 65536 := by
    intro f hf
    have hm : (((f.1 : Nat) : Int), ((f.1 + f.2 : Nat) : Int)) ∈ L.cellRegions u ++ L.fbRegions :=
      List.mem_append_right _ (List.mem_map.2 ⟨f, hf, rfl⟩)
    have h1 := hl.layout.nonempty _ hm
    have h2 := hl.layout.inside _ hm
    simp only at h1 h2
    omega
  refine ⟨?_, by omega, by omega, by omega, ?_, hfb⟩
  · unfold firstFb
    cases hf : L.freeblocks with
    | nil => simp
    | cons f rest =>
      simp only [List.map_cons, List.headD_cons]
      exact (hfb f (by rw [hf]; exact List.mem_cons_self ..)).2.1
  · intro p hp
    obtain ⟨i, hi, rfl⟩ := List.getElem_of_mem hp
    have hi' : i < L.cells.length := by rw [← hl.nptrs]; exact hi
    have hm : (((L.ptrs[i] : Nat) : Int), ((L.ptrs[i] + L.cells[i].allocSize u : Nat) : Int))
        ∈ L.cellRegions u ++ L.fbRegions := by
      apply List.mem_append_left
      unfold PageLayout.cellRegions
      rw [List.mem_iff_getElem]
      refine ⟨i, by simp only [List.length_zipWith]; omega, ?_⟩
      simp only [List.getElem_zipWith]
    have h1 := hl.layout.nonempty _ hm
    have h2 := hl.layout.inside _ hm
    simp only at h1 h2
    omega

/-- the individual header fields, as the parser reads them -/
theorem header_fields (u : Nat) (hu : u ≤ 65536) (page : Buf) (bytes : List Nat) (hb : page.toList = bytes)
    (L : PageLayout) (hl : PageLaidOut u bytes L) :
    L.hoff < page.size ∧ page.rd L.hoff = Spec.typeByte L.kind ∧
    unpackAt page ((L.hoff : Int) + 1) 2 = .ok (firstFb L) ∧
    unpackAt page ((L.hoff : Int) + 3) 2 = .ok L.cells.length ∧
    unpackAt page ((L.hoff : Int) + 5) 2 = .ok (L.contentStart % 65536) ∧
    (L.hoff + 7 < page.size ∧ page.rd (L.hoff + 7) = L.fragBytes) ∧
    (L.kind.isInterior = true → unpackAt page ((L.hoff : Int) + 8) 4 = .ok L.rightMost) := by
  obtain ⟨b1, b2, _, _, _, _⟩ := layout_bounds u hu bytes L hl
  have h := hl.header
  unfold Spec.pageHeaderBytes at h
  rw [List.append_assoc, List.append_assoc, List.append_assoc, List.append_assoc] at h
  obtain ⟨h0, h⟩ := storedAt_append _ _ _ _ h
  obtain ⟨h1, h⟩ := storedAt_append _ _ _ _ h
  obtain ⟨h3, h⟩ := storedAt_append _ _ _ _ h
  obtain ⟨h5, h⟩ := storedAt_append _ _ _ _ h
  obtain ⟨h7, h8⟩ := storedAt_append _ _ _ _ h
  simp only [List.length_singleton, be16_length, Nat.add_assoc, Nat.reduceAdd] at h1 h3 h5 h7 h8
  obtain ⟨r0, r0'⟩ := rd_stored page bytes hb _ _ h0
  obtain ⟨r7, r7'⟩ := rd_stored page bytes hb _ _ h7
  have e1 : (L.hoff : Int) + 1 = ((L.hoff + 1 : Nat) : Int) := by omega
  have e3 : (L.hoff : Int) + 3 = ((L.hoff + 3 : Nat) : Int) := by omega
  have e5 : (L.hoff : Int) + 5 = ((L.hoff + 5 : Nat) : Int) := by omega
  have e8 : (L.hoff : Int) + 8 = ((L.hoff + 8 : Nat) : Int) := by omega
  refine ⟨r0, r0', ?_, ?_, ?_, ⟨r7, r7'⟩, ?_⟩
  · rw [e1]; exact unpackAt_stored16 page bytes hb _ _ b1 h1
  · rw [e3]; exact unpackAt_stored16 page bytes hb _ _ b2 h3
  · rw [e5]; exact unpackAt_stored16 page bytes hb _ _ (by omega) h5
  · intro hi
    rw [if_pos hi] at h8
    rw [e8]; exact unpackAt_stored32 page bytes hb _ _ (hl.rightMostOk hi).2 h8

/-- the first byte of the page tells whether the database header is there -/
theorem master_flag (u : Nat) (hu : u ≤ 65536) (page : Buf) (bytes : List Nat) (hb : page.toList = bytes)
    (L : PageLayout) (hl : PageLaidOut u bytes L) :
    decide (page.size ≥ 1 ∧ page.rd 0 = 0x53) = decide (L.hoff = 100) ∧ 0 < page.size := by
  obtain ⟨f0, f0', _⟩ := header_fields u hu page bytes hb L hl
  rcases hl.dbHeader with h0 | ⟨h100, hh, _⟩
  · rw [h0] at f0 f0'
    have := typeByte_ne_53 L.kind
    refine ⟨?_, f0⟩
    rw [decide_eq_decide]
    constructor
    · intro h; rw [f0'] at h; exact absurd h.2 this
    · intro h; omega
  · obtain ⟨r, r'⟩ := rd_stored page bytes hb 0 _ (head_stored _ _ hh)
    refine ⟨?_, r⟩
    rw [decide_eq_decide]
    exact ⟨fun _ => h100, fun _ => ⟨r, r'⟩⟩

theorem btreePageType_laid (u : Nat) (hu : u ≤ 65536) (page : Buf) (bytes : List Nat)
    (hb : page.toList = bytes) (L : PageLayout) (hl : PageLaidOut u bytes L) :
    btreePageType page = .ok L.kind := by
  obtain ⟨f0, f0', _⟩ := header_fields u hu page bytes hb L hl
  obtain ⟨_, hpos⟩ := master_flag u hu page bytes hb L hl
  unfold btreePageType
  rw [if_neg (by omega)]
  rcases hl.dbHeader with h0 | ⟨h100, hh, htab⟩
  · rw [h0] at f0'
    simp only [f0']
    cases L.kind <;> simp [Spec.typeByte]
  · obtain ⟨_, r'⟩ := rd_stored page bytes hb 0 _ (head_stored _ _ hh)
    rw [h100] at f0 f0'
    simp only [r', if_true, f0']
    rw [if_neg (by omega)]
    revert htab
    cases L.kind <;> simp [Spec.typeByte, PageType.isTable]

/-- the header the parser builds -/
def hdrOf (L : PageLayout) : PageHdr :=
  ⟨L.hoff, Spec.pageHdrLen L.kind, decide (L.hoff = 100), firstFb L, L.cells.length, L.contentStart,
    L.fragBytes, if L.kind.isInterior then some L.rightMost else none⟩

theorem parsePageHdr_laid (u : Nat) (hu : u ≤ 65536) (page : Buf) (bytes : List Nat)
    (hb : page.toList = bytes) (L : PageLayout) (hl : PageLaidOut u bytes L) :
    parsePageHdr page L.kind.isInterior = .ok (hdrOf L) := by
  obtain ⟨_, _, f1, f3, f5, ⟨f7, f7'⟩, f8⟩ := header_fields u hu page bytes hb L hl
  obtain ⟨hm, _⟩ := master_flag u hu page bytes hb L hl
  obtain ⟨_, _, c1, c2, _, _⟩ := layout_bounds u hu bytes L hl
  have hoff : (if decide (L.hoff = 100) = true then Generated.SQLITE_DATABASE_HEADER_LENGTH else 0) = L.hoff := by
    rcases hl.dbHeader with h0 | ⟨h100, _, _⟩
    · simp [h0]
    · simp [h100]
  have hcco : (if L.contentStart % 65536 = 0 then Generated.MAXIMUM_PAGE_SIZE else L.contentStart % 65536)
      = L.contentStart := by
    simp only [Generated.MAXIMUM_PAGE_SIZE]
    split <;> omega
  unfold parsePageHdr hdrOf Spec.pageHdrLen
  simp only [hm, hoff, f1, f3, f5, f7, f7', if_true, bind, Except.bind, pure, Except.pure, hcco]
  cases hi : L.kind.isInterior with
  | true =>
    have this : unpackAt page ((L.hoff : Int) + ((8 : Nat) : Int)) 4 = .ok L.rightMost := f8 hi
    simp only [Generated.RIGHT_MOST_POINTER_OFFSET, Generated.RIGHT_MOST_POINTER_LENGTH, this, if_true]
    rfl
  | false => simp only [Bool.false_eq_true, if_false]; rfl


/-! ### the cell pointer array -/

theorem ptr_stored (bytes : List Nat) : ∀ (ptrs : List Nat) (base : Nat),
    StoredAt bytes base (ptrs.flatMap Spec.be16) →
    ∀ i (h : i < ptrs.length), StoredAt bytes (base + 2 * i) (Spec.be16 ptrs[i]) := by
  intro ptrs
  induction ptrs with
  | nil => intro _ _ i h; simp at h
  | cons p rest ih =>
    intro base hst i h
    rw [List.flatMap_cons] at hst
    obtain ⟨h1, h2⟩ := storedAt_append _ _ _ _ hst
    cases i with
    | zero => simpa using h1
    | succ j =>
      have := ih (base + 2) (by rwa [be16_length] at h2) j (by simpa using h)
      simp only [List.getElem_cons_succ]
      rwa [show base + 2 * (j + 1) = base + 2 + 2 * j by omega]

/-! ### list plumbing -/

theorem exists_list_of_forall_lt {α : Type} (R : Nat → α → Prop) : ∀ (n : Nat),
    (∀ i, i < n → ∃ y, R i y) → ∃ ys : List α, ys.length = n ∧ ∀ i (h : i < ys.length), R i ys[i] := by
  intro n
  induction n with
  | zero => intro _; exact ⟨[], rfl, fun i h => by simp at h⟩
  | succ n ih =>
    intro h
    obtain ⟨ys, hl, hy⟩ := ih (fun i hi => h i (by omega))
    obtain ⟨y, hy'⟩ := h n (by omega)
    refine ⟨ys ++ [y], by simp [hl], fun i hi => ?_⟩
    by_cases hlt : i < ys.length
    · rw [List.getElem_append_left hlt]; exact hy i hlt
    · have : i = n := by simp only [List.length_append, List.length_singleton] at hi; omega
      subst this
      simp only [← hl, List.getElem_append_right (Nat.le_refl _), Nat.sub_self, List.getElem_cons_zero]
      rw [hl]; exact hy'

theorem range_map_getD {α : Type} (l : List α) (d : α) :
    (List.range l.length).map (fun i => l.getD i d) = l := by
  apply List.ext_getElem
  · simp
  · intro i h1 h2
    simp only [List.getElem_map, List.getElem_range, List.getD_eq_getElem?_getD,
      List.getElem?_eq_getElem h2, Option.getD_some]

/-- a `foldlM` over `range n` whose step appends one item to each of two lists and adds to a
total -/
theorem foldlM_range_collect {α β : Type}
    (f : (List α × List β × Int) → Nat → Py (List α × List β × Int))
    (cf : Nat → α) (sf : Nat → β) (zf : Nat → Int) (n : Nat)
    (hf : ∀ st idx, idx < n → f st idx = .ok (st.1 ++ [cf idx], st.2.1 ++ [sf idx], st.2.2 + zf idx)) :
    ∀ k, k ≤ n → (List.range k).foldlM f ([], [], 0)
      = .ok ((List.range k).map cf, (List.range k).map sf, Layout.isum ((List.range k).map zf)) := by
  intro k
  induction k with
  | zero => intro _; rfl
  | succ k ih =>
    intro hk
    rw [List.range_succ, List.foldlM_append, ih (by omega)]
    simp only [bind, Except.bind, List.foldlM_cons, List.foldlM_nil, hf _ k (by omega), pure, Except.pure,
      List.map_append, List.map_cons, List.map_nil, Layout.isum_append, Layout.isum_cons, Layout.isum_nil]
    congr 3
    omega


/-! ### the freeblock chain -/

theorem parseFreeblock_stored (page : Buf) (bytes : List Nat) (hb : page.toList = bytes)
    (idx s nx z : Nat) (hnx : nx < 65536) (hz : z < 65536)
    (h : StoredAt bytes s (Spec.be16 nx ++ Spec.be16 z)) :
    parseFreeblock page idx s = .ok ⟨idx, s, nx, z⟩ := by
  obtain ⟨h1, h2⟩ := storedAt_append _ _ _ _ h
  rw [be16_length] at h2
  have e1 := unpackAt_stored16 page bytes hb s nx hnx h1
  have e2 := unpackAt_stored16 page bytes hb (s + 2) z hz h2
  have e : ((s + 2 : Nat) : Int) = (s : Int) + ((2 : Nat) : Int) := by omega
  rw [e] at e2
  unfold parseFreeblock
  simp only [Generated.NEXT_FREEBLOCK_OFFSET_LENGTH, Generated.FREEBLOCK_BYTE_LENGTH, e1, e2, bind,
    Except.bind, pure, Except.pure]

/-- the freeblocks the walk reports for a chain -/
def mkFbs : Nat → List (Nat × Nat) → List Freeblock
  | _, [] => []
  | idx, [f] => [⟨idx, f.1, 0, f.2⟩]
  | idx, f :: g :: rest => ⟨idx, f.1, g.1, f.2⟩ :: mkFbs (idx + 1) (g :: rest)

theorem mkFbs_map : ∀ (l : List (Nat × Nat)) (idx : Nat),
    (mkFbs idx l).map (fun f => (f.start, f.byteSize)) = l := by
  intro l
  induction l with
  | nil => intro _; rfl
  | cons f rest ih =>
    intro idx
    cases rest with
    | nil => rfl
    | cons g rest' =>
      simp only [mkFbs, List.map_cons]
      rw [ih (idx + 1)]

theorem walk_laid (page : Buf) (bytes : List Nat) (hb : page.toList = bytes) :
    ∀ (fbs : List (Nat × Nat)) (f : Nat × Nat) (fuel idx : Nat) (acc : List Freeblock),
    Spec.FreeblocksAt bytes (f :: fbs) → (∀ g ∈ f :: fbs, g.1 ≠ 0 ∧ g.1 < 65536 ∧ g.2 < 65536) →
    65537 - f.1 ≤ fuel →
    freeblockWalk page fuel idx f.1 acc = .ok (acc.reverse ++ mkFbs idx (f :: fbs)) := by
  intro fbs
  induction fbs with
  | nil =>
    intro f fuel idx acc hat hbd hfuel
    have hf := hbd f (List.mem_cons_self ..)
    obtain ⟨k, rfl⟩ : ∃ k, fuel = k + 1 := ⟨fuel - 1, by omega⟩
    have hp := parseFreeblock_stored page bytes hb idx f.1 0 f.2 (by omega) hf.2.2 hat
    unfold freeblockWalk
    simp only [hp, bind, Except.bind, if_true, pure, Except.pure, List.reverse_cons, mkFbs]
  | cons g rest ih =>
    intro f fuel idx acc hat hbd hfuel
    have hf := hbd f (List.mem_cons_self ..)
    have hg := hbd g (List.mem_cons_of_mem _ (List.mem_cons_self ..))
    obtain ⟨hlt, hst, hrest⟩ := hat
    obtain ⟨k, rfl⟩ : ∃ k, fuel = k + 1 := ⟨fuel - 1, by omega⟩
    have hp := parseFreeblock_stored page bytes hb idx f.1 g.1 f.2 hg.2.1 hf.2.2 hst
    have hnext := ih g k (idx + 1) (⟨idx, f.1, g.1, f.2⟩ :: acc) hrest
      (fun x hx => hbd x (List.mem_cons_of_mem _ hx)) (by omega)
    unfold freeblockWalk
    simp only [hp, bind, Except.bind, hg.1, if_false, pure, Except.pure]
    rw [if_neg (by omega), hnext]
    simp only [List.reverse_cons, List.append_assoc, List.singleton_append, mkFbs]


/-! ### the page -/

/-- the caller of a child page constructor: reads the child's first byte, picks the class, checks
the frames left and constructs the child -/
def Descends (v : VersionIf) (fuel cost : Nat) (table : Bool) (pg : Nat) (sub : List BPage) : Prop :=
  ∃ fb ccls, v.getData pg 0 (some 1) = .ok fb ∧ childClass table fb = some ccls ∧ cost ≤ fuel ∧
    parseBTree v (fuel - cost) pg ccls = .ok sub

theorem elementwise_of_getElem {α β : Type} (R : α → β → Prop) : ∀ (l1 : List α) (l2 : List β),
    l1.length = l2.length → (∀ i (h1 : i < l1.length) (h2 : i < l2.length), R l1[i] l2[i]) →
    Spec.Elementwise R l1 l2 := by
  intro l1
  induction l1 with
  | nil =>
    intro l2 hl _
    cases l2 with
    | nil => trivial
    | cons b bs => simp at hl
  | cons a as ih =>
    intro l2 hl h
    cases l2 with
    | nil => simp at hl
    | cons b bs =>
      refine ⟨h 0 (by simp) (by simp), ih bs (by simpa using hl) (fun i h1 h2 => ?_)⟩
      have := h (i + 1) (by simp; omega) (by simp; omega)
      simpa using this

theorem regionSize_mk (a b : Int) : Spec.regionSize (a, b) = b - a := rfl

theorem sumSizes_append (a b : List Region) : Spec.sumSizes (a ++ b) = Spec.sumSizes a + Spec.sumSizes b := by
  rw [Layout.sumSizes_def, Layout.sumSizes_def, Layout.sumSizes_def, List.map_append, Layout.isum_append]

theorem page_parse (v : VersionIf) (hu : 512 ≤ v.pageSize) (hu2 : v.pageSize ≤ 65536)
    (n : Nat) (bytes : List Nat) (L : PageLayout) (fuel : Nat)
    (hs : Spec.Serves v n bytes) (hl : PageLaidOut v.pageSize bytes L) (hn : L.hoff = 100 → n = 1)
    (hv : ∀ c ∈ L.cells, c.Valid v)
    (subs : List (List BPage)) (hsl : subs.length = L.cells.length)
    (hsub : ∀ i (h : i < L.cells.length),
      match L.cells[i].leftChild with
      | some lc => Descends v fuel 3 L.kind.isTable lc (subs[i]'(by omega))
      | none => subs[i]'(by omega) = [])
    (rsub : List BPage)
    (hr : L.kind.isInterior = true → Descends v fuel 1 L.kind.isTable L.rightMost rsub) :
    ∃ me, parseBTree v (fuel + 1) n L.kind
        = .ok (if L.kind.isInterior then me :: rsub ++ subs.flatten else [me]) ∧
      L.ReportedAs v.pageSize n me := by
  obtain ⟨pv, hpv⟩ := hs.version
  obtain ⟨o, ho⟩ := hs.offset
  obtain ⟨page, hpage, hb, hsz⟩ := hs.whole
  have hty := btreePageType_laid v.pageSize hu2 page bytes hb L hl
  have hhdr := parsePageHdr_laid v.pageSize hu2 page bytes hb L hl
  obtain ⟨_, _, _, _, hpb, hfb⟩ := layout_bounds v.pageSize hu2 bytes L hl
  have hnp := hl.nptrs
  have hoffe : (if decide (L.hoff = 100) = true then Generated.SQLITE_DATABASE_HEADER_LENGTH else 0) = L.hoff := by
    rcases hl.dbHeader with h0 | ⟨h100, _, _⟩
    · simp [h0]
    · simp [h100]
  have hroot : ¬ (decide (L.hoff = 100) = true ∧ n ≠ Generated.SQLITE_MASTER_SCHEMA_ROOT_PAGE) := by
    rintro ⟨h1, h2⟩
    exact h2 (hn (of_decide_eq_true h1))
  -- the cells
  obtain ⟨cs, hcl, hcs⟩ := exists_list_of_forall_lt
    (fun i c => ∃ (h : i < L.cells.length) (h' : i < L.ptrs.length),
      parseCellLocal v (cellKindOf L.kind) page i L.ptrs[i] = .ok c ∧ c.index = i ∧ c.start = L.ptrs[i] ∧
      L.cells[i].ReportedAs v.pageSize c ∧ cellSz c = ((L.cells[i].allocSize v.pageSize : Nat) : Int))
    L.cells.length (by
      intro i hi
      have hi' : i < L.ptrs.length := by omega
      have hst : StoredAt bytes L.ptrs[i] (L.cells[i].bytes v.pageSize) :=
        hl.cellsAt (L.ptrs[i], L.cells[i]) (by
          rw [List.mem_iff_getElem]
          exact ⟨i, by simp only [List.length_zip]; omega, by simp only [List.getElem_zip]⟩)
      obtain ⟨c, hc, h1, h2, h3, h4⟩ := cell_reported v hu L.cells[i] (hv _ (List.getElem_mem hi)) page bytes hb
        i L.ptrs[i] hst
      rw [hl.kinds _ (List.getElem_mem hi)] at hc
      exact ⟨c, hi, hi', hc, h1, h2, h3, h4⟩)
  have hfold : ∀ (f : (List Cell × List (List BPage) × Int) → Nat → Py (List Cell × List (List BPage) × Int)),
      (∀ st idx, idx < L.cells.length → f st idx = .ok (st.1 ++ [cs.getD idx default],
        st.2.1 ++ [subs.getD idx []], st.2.2 + cellSz (cs.getD idx default))) →
      (List.range L.cells.length).foldlM f ([], [], 0) = .ok (cs, subs, Layout.isum (cs.map cellSz)) := by
    intro f hf
    rw [foldlM_range_collect f _ _ _ _ hf _ (Nat.le_refl _)]
    have e1 : (List.range L.cells.length).map (fun i => cs.getD i default) = cs := by
      rw [← hcl]; exact range_map_getD cs default
    have e2 : (List.range L.cells.length).map (fun i => subs.getD i []) = subs := by
      rw [← hsl]; exact range_map_getD subs []
    have e3 : (List.range L.cells.length).map (fun i => cellSz (cs.getD i default)) = cs.map cellSz := by
      rw [← e1, List.map_map]; simp only [e1]; rfl
    rw [e1, e2, e3]
  rw [parseBTree]
  simp only [hpv, ho, hpage, hty, hhdr, bind, Except.bind, hdrOf, hoffe, hroot, if_false]
  rw [hfold]
  · -- freeblocks
    have hwalk : (if firstFb L ≠ 0 then freeblockWalk page 65537 0 (firstFb L) [] else pure [])
        = .ok (mkFbs 0 L.freeblocks) := by
      unfold firstFb
      cases hf : L.freeblocks with
      | nil => simp [mkFbs, pure, Except.pure]
      | cons f rest =>
        have hf0 := hfb f (by rw [hf]; exact List.mem_cons_self ..)
        simp only [List.map_cons, List.headD_cons, ne_eq, hf0.1, not_false_eq_true, if_true]
        have := walk_laid page bytes hb rest f 65537 0 [] (by rw [← hf]; exact hl.freeAt)
          (by rw [← hf]; exact hfb) (by omega)
        simpa using this
    -- regions
    have hreg1 : cs.map (fun c => ((c.start : Int),
        max c.end_ ((c.start : Int) + ((Generated.MINIMUM_CELL_ALLOCATION_SIZE : Nat) : Int))))
        = L.cellRegions v.pageSize := by
      unfold PageLayout.cellRegions
      apply List.ext_getElem
      · simp only [List.length_map, List.length_zipWith]; omega
      · intro i h1 h2
        simp only [List.length_map] at h1
        obtain ⟨_, _, _, _, hcst, hrep, _⟩ := hcs i h1
        simp only [List.getElem_map, List.getElem_zipWith, hrep.end_, hcst, CellSpec.allocSize,
          Generated.MINIMUM_CELL_ALLOCATION_SIZE, Prod.mk.injEq, true_and]
        omega
    have hreg2 : (mkFbs 0 L.freeblocks).map (fun f => ((f.start : Int), (f.end_ : Int))) = L.fbRegions := by
      unfold PageLayout.fbRegions
      have := mkFbs_map L.freeblocks 0
      conv => rhs; rw [← this]
      rw [List.map_map]
      rfl
    have htot : Layout.isum (cs.map cellSz)
        + List.foldl (fun x1 x2 => x1 + x2) 0 ((mkFbs 0 L.freeblocks).map (fun f => (f.byteSize : Int)))
        = Spec.sumSizes (L.cellRegions v.pageSize ++ L.fbRegions) := by
      rw [sumSizes_append, ← hreg1, ← hreg2, Layout.sumSizes_def, Layout.sumSizes_def, List.map_map, List.map_map]
      congr 1
      · congr 1
        apply List.map_congr_left
        intro c hc
        obtain ⟨i, hi, rfl⟩ := List.getElem_of_mem hc
        obtain ⟨_, _, _, _, hcst, hrep, hcz⟩ := hcs i hi
        simp only [Function.comp, regionSize_mk, hcz, hrep.end_, CellSpec.allocSize,
          Generated.MINIMUM_CELL_ALLOCATION_SIZE]
        omega
      · show Layout.isum _ = _
        congr 1
        apply List.map_congr_left
        intro f _
        simp only [Function.comp, regionSize_mk, Freeblock.end_]
        omega
    obtain ⟨lay, hlay, _, _⟩ := Layout.accepts_wellformed v.strict v.pageSize
      (Spec.pageHdrLen L.kind + L.hoff + L.cells.length * Generated.CELL_POINTER_BYTE_LENGTH)
      L.contentStart L.fragBytes (L.cellRegions v.pageSize ++ L.fbRegions)
      (Layout.isum (cs.map cellSz))
      (List.foldl (fun x1 x2 => x1 + x2) 0 ((mkFbs 0 L.freeblocks).map (fun f => (f.byteSize : Int))))
      hl.layout (by have := hl.gap; simp only [Generated.CELL_POINTER_BYTE_LENGTH]; omega) htot
    simp only [hwalk, hreg1, hreg2, hlay]
    have hrep : ∀ me : BPage, me.number = n → me.ptype = L.kind → me.cells = cs →
        me.freeblocks = mkFbs 0 L.freeblocks →
        me.hdr.rightMost = (if L.kind.isInterior then some L.rightMost else none) →
        L.ReportedAs v.pageSize n me := by
      intro me h1 h2 h3 h4 h5
      refine ⟨h1, h2, ?_, ?_, ?_, by rw [h4]; exact mkFbs_map _ _, h5⟩
      · rw [h3]
        apply elementwise_of_getElem _ _ _ hcl.symm
        intro i hi1 hi2
        obtain ⟨_, _, _, _, _, hrep, _⟩ := hcs i hi2
        exact hrep
      · rw [h3]
        apply List.ext_getElem
        · simp only [List.length_map]; omega
        · intro i hi1 hi2
          simp only [List.length_map] at hi1
          obtain ⟨_, _, _, _, hcst, _, _⟩ := hcs i hi1
          simp only [List.getElem_map, hcst]
      · rw [h3]
        apply List.ext_getElem
        · simp only [List.length_map, List.length_range]; omega
        · intro i hi1 hi2
          simp only [List.length_map] at hi1
          obtain ⟨_, _, _, hci, _, _, _⟩ := hcs i hi1
          simp only [List.getElem_map, hci, List.getElem_range]
    cases hi : L.kind.isInterior with
    | false =>
      rw [hi] at hrep
      simp only [Bool.false_eq_true, if_false, pure, Except.pure]
      exact ⟨_, rfl, hrep _ rfl rfl rfl rfl rfl⟩
    | true =>
      rw [hi] at hrep
      obtain ⟨fb, ccls, h1, h2, h3, h4⟩ := hr hi
      have hnlt : ¬ fuel < rightMostDescentFrames := by unfold rightMostDescentFrames; omega
      have h4' : parseBTree v (fuel - rightMostDescentFrames) L.rightMost ccls = .ok rsub := h4
      simp only [if_true, (hl.rightMostOk hi).1, if_false, Generated.PAGE_TYPE_LENGTH, h1, h2, hnlt, h4',
        pure, Except.pure]
      exact ⟨_, rfl, hrep _ rfl rfl rfl rfl rfl⟩
  · intro st idx hidx
    obtain ⟨hi1, hi2, hc, hci, hcst, hrep, hcz⟩ := hcs idx (by omega)
    have hps := unpackAt_stored16 page bytes hb _ _ (hpb _ (List.getElem_mem hi2))
      (ptr_stored bytes L.ptrs _ hl.ptrArray idx hi2)
    have ecast : ((Spec.pageHdrLen L.kind + L.hoff : Nat) : Int) + (idx : Int) * ((2 : Nat) : Int)
        = ((L.hoff + Spec.pageHdrLen L.kind + 2 * idx : Nat) : Int) := by omega
    have eg : cs.getD idx default = cs[idx]'(by omega) := by
      simp only [List.getD_eq_getElem?_getD, List.getElem?_eq_getElem (show idx < cs.length by omega), Option.getD_some]
    have es : subs.getD idx [] = subs[idx]'(by omega) := by
      simp only [List.getD_eq_getElem?_getD, List.getElem?_eq_getElem (show idx < subs.length by omega), Option.getD_some]
    rw [eg, es]
    simp only [Generated.CELL_POINTER_BYTE_LENGTH]
    simp only [ecast, hps, hc]
    have hk : cs[idx].kind = cellKindOf L.kind := by
      rw [hrep.kind, hl.kinds _ (List.getElem_mem hi1)]
    have hzz : (if cellKindOf L.kind ≠ CellKind.tableInterior ∧ cs[idx].hasOverflow = true
        then cs[idx].end_ - (cs[idx].start : Int)
        else max cs[idx].byteSize ((Generated.MINIMUM_CELL_ALLOCATION_SIZE : Nat) : Int)) = cellSz cs[idx] := by
      unfold cellSz; rw [hk]
    rw [hzz]
    have hlc := hrep.leftChild
    have hsb := hsub idx hi1
    cases hlcs : L.cells[idx].leftChild with
    | none =>
      rw [hlcs] at hlc hsb
      simp only at hsb
      simp only [hlc, hsb, pure, Except.pure]
    | some lc =>
      rw [hlcs] at hlc hsb
      obtain ⟨fb, ccls, h1, h2, h3, h4⟩ := hsb
      have hnlt : ¬ fuel < cellDescentFrames := by unfold cellDescentFrames; omega
      simp only [hlc, Generated.PAGE_TYPE_LENGTH, h1, h2, hnlt, if_false]
      have h4' : parseBTree v (fuel - cellDescentFrames) lc ccls = .ok subs[idx] := h4
      simp only [h4', pure, Except.pure]


theorem leaf_no_child (c : CellSpec) (k : PageType) (hk : c.kind = cellKindOf k)
    (hleaf : k.isInterior = false) : c.leftChild = none := by
  cases c <;> cases k <;> simp_all [CellSpec.kind, cellKindOf, PageType.isInterior, CellSpec.leftChild]

/-- **Stage 1.**  A leaf page (table or index) laid out as SQLite lays it out and served by the
version is constructed as a single page holding exactly its cells. -/
theorem leaf_page_roundtrip (v : VersionIf) (hu : 512 ≤ v.pageSize) (hu2 : v.pageSize ≤ 65536)
    (n : Nat) (bytes : List Nat) (L : PageLayout) (fuel : Nat)
    (hs : Spec.Serves v n bytes) (hl : PageLaidOut v.pageSize bytes L) (hn : L.hoff = 100 → n = 1)
    (hv : ∀ c ∈ L.cells, c.Valid v) (hleaf : L.kind.isInterior = false) :
    ∃ pg, parseBTree v (fuel + 1) n L.kind = .ok [pg] ∧ L.ReportedAs v.pageSize n pg := by
  obtain ⟨me, h1, h2⟩ := page_parse v hu hu2 n bytes L fuel hs hl hn hv
    (List.replicate L.cells.length []) (by simp)
    (by
      intro i hi
      rw [leaf_no_child _ _ (hl.kinds _ (List.getElem_mem hi)) hleaf]
      simp)
    [] (by intro h; rw [hleaf] at h; cases h)
  rw [hleaf] at h1
  exact ⟨me, h1, h2⟩

end SqliteDissect.Proofs.PageParse
