/-
Proofs for Properties/C18Regex.lean: the counted matcher of Model/RegexCost.lean.
-/
import SqliteDissect.Model.RegexCost
import SqliteDissect.Proofs.Regex
import Mathlib.Tactic.Ring

namespace SqliteDissect.Proofs.RegexCost
open SqliteDissect SqliteDissect.Model SqliteDissect.Model.Regex SqliteDissect.Model.RegexCost

/-! ### 1. erasing the counter -/

theorem tick_fst {α : Type} (n : Nat) (r : Res α) : (tick n r).1 = r.1 := rfl
theorem tick_snd {α : Type} (n : Nat) (r : Res α) : (tick n r).2 = n + r.2 := rfl

theorem repLoopC_fst {α : Type} (step : List Nat → (List Nat → Option α) → Option α)
    (stepC : List Nat → (List Nat → Res α) → Res α)
    (h : ∀ s k, (stepC s k).1 = step s (fun r => (k r).1)) :
    ∀ (hi lo : Nat) (s : List Nat) (k : List Nat → Res α),
      (repLoopC stepC hi lo s k).1 = repLoop step hi lo s (fun r => (k r).1) := by
  intro hi
  induction hi with
  | zero =>
    intro lo s k
    simp only [repLoopC, repLoop]
    split <;> rfl
  | succ hi ih =>
    intro lo s k
    have e := h s (fun s' => repLoopC stepC hi (lo - 1) s' k)
    have e2 : (fun r => (repLoopC stepC hi (lo - 1) r k).1) =
        fun r => repLoop step hi (lo - 1) r (fun r => (k r).1) := funext fun r => ih (lo - 1) r k
    simp only [e2] at e
    simp only [repLoopC, repLoop]
    rcases hC : stepC s (fun s' => repLoopC stepC hi (lo - 1) s' k) with ⟨_ | a, n⟩
    · rw [hC] at e
      rw [← e]
      simp only [orElse, tick_fst]
      split <;> rfl
    · rw [hC] at e
      rw [← e]
      simp only [orElse]

mutual
theorem mC_fst {α : Type} : ∀ (p : Pat) (s : List Nat) (k : List Nat → Res α),
    (mC p s k).1 = m p s (fun r => (k r).1)
  | .lit b, s, k => by
    cases s with
    | nil => simp only [mC, m, tick_fst]
    | cons c r => simp only [mC, m, tick_fst]; split <;> rfl
  | .cls lo hi, s, k => by
    cases s with
    | nil => simp only [mC, m, tick_fst]
    | cons c r => simp only [mC, m, tick_fst]; split <;> rfl
  | .set bs, s, k => by
    cases s with
    | nil => simp only [mC, m, tick_fst]
    | cons c r => simp only [mC, m, tick_fst]; split <;> rfl
  | .rep lo hi p, s, k => by
    simp only [mC, m, tick_fst]
    exact repLoopC_fst (m p) (mC p) (fun s k => mC_fst p s k) hi lo s k
  | .seq ps, s, k => by
    simp only [mC, m, tick_fst]
    exact mseqC_fst ps s k
  | .alt ps, s, k => by
    simp only [mC, m, tick_fst]
    exact maltC_fst ps s k
theorem mseqC_fst {α : Type} : ∀ (ps : List Pat) (s : List Nat) (k : List Nat → Res α),
    (mseqC ps s k).1 = mseq ps s (fun r => (k r).1)
  | [], s, k => by simp only [mseqC, mseq]
  | p :: ps, s, k => by
    simp only [mseqC, mseq]
    rw [mC_fst p s]
    have e : (fun r => (mseqC ps r k).1) = fun r => mseq ps r (fun r => (k r).1) :=
      funext fun r => mseqC_fst ps r k
    rw [e]
theorem maltC_fst {α : Type} : ∀ (ps : List Pat) (s : List Nat) (k : List Nat → Res α),
    (maltC ps s k).1 = malt ps s (fun r => (k r).1)
  | [], s, k => by simp only [maltC, malt]
  | p :: ps, s, k => by
    simp only [maltC, malt]
    have e := mC_fst p s k
    have e2 := maltC_fst ps s k
    rcases hC : mC p s k with ⟨_ | a, n⟩
    · rw [hC] at e
      rw [← e]
      simp only [orElse, tick_fst]
      exact e2
    · rw [hC] at e
      rw [← e]
      simp only [orElse]
end

theorem matchAtC_fst (p : Pat) (s : List Nat) : (matchAtC p s).1 = matchAt p s := by
  unfold matchAtC matchAt
  exact mC_fst p s _

theorem searchFromC_fst (p : Pat) : ∀ (s : List Nat) (pos : Nat),
    (searchFromC p s pos).1 = searchFrom p s pos := by
  intro s
  induction s with
  | nil =>
    intro pos
    have e := matchAtC_fst p []
    simp only [searchFromC, searchFrom]
    rcases hC : matchAtC p [] with ⟨_ | a, n⟩ <;> rw [hC] at e <;> rw [← e]
  | cons c t ih =>
    intro pos
    have e := matchAtC_fst p (c :: t)
    simp only [searchFromC, searchFrom]
    rcases hC : matchAtC p (c :: t) with ⟨_ | a, n⟩ <;> rw [hC] at e <;> rw [← e]
    exact ih (pos + 1)

theorem consC_fst_some (a : Nat × Nat) (n : Nat) (r : List (Nat × Nat) × Nat) :
    (consC (some a) n r).1 = a :: r.1 := rfl
theorem consC_fst_none (n : Nat) (r : List (Nat × Nat) × Nat) : (consC none n r).1 = r.1 := rfl
theorem consC_snd (x : Option (Nat × Nat)) (n : Nat) (r : List (Nat × Nat) × Nat) :
    (consC x n r).2 = n + r.2 := rfl

theorem finditerAuxC_fst (p : Pat) : ∀ (fuel : Nat) (s : List Nat) (pos : Nat),
    (finditerAuxC p fuel s pos).1 = finditerAux p fuel s pos := by
  intro fuel
  induction fuel with
  | zero => intro s pos; rfl
  | succ fuel ih =>
    intro s pos
    have e := matchAtC_fst p s
    simp only [finditerAuxC, finditerAux]
    rcases hC : matchAtC p s with ⟨_ | a, n⟩ <;> rw [hC] at e <;> rw [← e] <;> simp only
    · rw [consC_fst_none]
      cases s with
      | nil => rfl
      | cons c t => exact ih t (pos + 1)
    · split
      · rw [consC_fst_some]
        cases s with
        | nil => rfl
        | cons c t => simp only [ih t (pos + 1)]
      · rw [consC_fst_some, ih]

theorem finditerC_fst (p : Pat) (s : List Nat) : (finditerC p s).1 = finditer p s :=
  finditerAuxC_fst p _ s 0

/-! ### 2. the exponential family: every column holds blobs and texts -/

/-- `n` columns, each `[-1, -2]` (blob, text) -/
def btSig (n : Nat) : List (List Int) := List.replicate n [-1, -2]

/-- `(?:(?:[\x0D-\x7F]|[\x80-\xFF]{1,7}[\x00-\x7F])|(?:[\x0C-\x7F]|[\x80-\xFF]{1,7}[\x00-\x7F]))` -/
def btCol : Pat := .alt [.alt [.cls 0x0D 0x7F, varTail], .alt [.cls 0x0C 0x7F, varTail]]

def btPat (n : Nat) : Pat := .seq (List.replicate n btCol)

/-- `n - 1` bytes `a`, then a line feed -/
def btSubject (n : Nat) : List Nat := List.replicate (n - 1) 0x61 ++ [0x0A]

theorem genColumn_bt : genColumn [-1, -2] = .ok btCol := by rfl

theorem genColumns_bt (n : Nat) : genColumns (btSig n) = .ok (List.replicate n btCol) := by
  induction n with
  | zero => rfl
  | succ n ih =>
    unfold btSig at ih ⊢
    rw [List.replicate_succ]
    unfold genColumns
    rw [genColumn_bt, ih]
    rfl

theorem genSignature_bt (n : Nat) : genSignature (btSig n) false = .ok (btPat n) := by
  unfold genSignature
  simp only [Bool.false_eq_true, if_false]
  rw [genColumns_bt]
  rfl

/-- one column in front of `a`: both alternatives consume the `a` and run the continuation; when
it fails both times the column costs twice the continuation plus 11 -/
theorem btCol_a {α : Type} (rest : List Nat) (k : List Nat → Res α) (c : Nat)
    (h : k rest = (none, c)) : mC btCol (0x61 :: rest) k = (none, 2 * c + 11) := by
  simp [btCol, varTail, mC, maltC, mseqC, repLoopC, orElse, tick, h]
  omega

/-- one column in front of a line feed: no alternative consumes it -/
theorem btCol_lf {α : Type} (k : List Nat → Res α) : mC btCol [0x0A] k = (none, 11) := by
  simp [btCol, varTail, mC, maltC, mseqC, repLoopC, orElse, tick]

theorem bt_seq {α : Type} (k : List Nat → Res α) : ∀ j : Nat, ∃ c,
    mseqC (List.replicate (j + 1) btCol) (List.replicate j 0x61 ++ [0x0A]) k = (none, c) ∧
    c + 11 = 11 * 2 ^ (j + 1) := by
  intro j
  induction j with
  | zero =>
    refine ⟨11, ?_, by decide⟩
    simp only [List.replicate_succ, List.replicate_zero, List.nil_append, mseqC]
    exact btCol_lf _
  | succ j ih =>
    obtain ⟨c, hc, hn⟩ := ih
    refine ⟨2 * c + 11, ?_, ?_⟩
    · have e1 : List.replicate (j + 1 + 1) btCol = btCol :: List.replicate (j + 1) btCol :=
        List.replicate_succ
      have e2 : List.replicate (j + 1) 0x61 ++ [0x0A] = 0x61 :: (List.replicate j 0x61 ++ [0x0A]) := by
        rw [List.replicate_succ, List.cons_append]
      rw [e1, e2]
      unfold mseqC
      exact btCol_a _ _ c hc
    · rw [Nat.pow_succ]; omega

/-- **the exact count**: the match fails after `11 * 2 ^ n - 10` steps -/
theorem bt_matchAt (n : Nat) (hn : 1 ≤ n) :
    matchAtC (btPat n) (btSubject n) = (none, 11 * 2 ^ n - 10) := by
  obtain ⟨j, rfl⟩ : ∃ j, n = j + 1 := ⟨n - 1, by omega⟩
  obtain ⟨c, hc, he⟩ := bt_seq (fun r => ((some r, 0) : Res (List Nat))) j
  unfold matchAtC btPat btSubject
  simp only [mC, Nat.add_sub_cancel, hc, tick]
  congr 1
  omega

theorem bt_lower (n : Nat) (hn : 1 ≤ n) :
    (matchAtC (btPat n) (btSubject n)).1 = none ∧ 2 ^ n ≤ steps (matchAtC (btPat n) (btSubject n)) := by
  rw [bt_matchAt n hn]
  refine ⟨rfl, ?_⟩
  show 2 ^ n ≤ 11 * 2 ^ n - 10
  have : 2 ≤ 2 ^ n := by
    calc 2 = 2 ^ 1 := rfl
      _ ≤ 2 ^ n := Nat.pow_le_pow_right (by decide) hn
  omega

/-- the pattern text of one column is 55 bytes: the string quoted at `btCol` -/
theorem print_btCol : print btCol =
    [0x28, 0x3F, 0x3A,
      0x28, 0x3F, 0x3A, 0x5B, 0x0D, 0x2D, 0x7F, 0x5D, 0x7C,
        0x5B, 0x80, 0x2D, 0xFF, 0x5D, 0x7B, 0x31, 0x2C, 0x37, 0x7D, 0x5B, 0x00, 0x2D, 0x7F, 0x5D, 0x29,
      0x7C,
      0x28, 0x3F, 0x3A, 0x5B, 0x0C, 0x2D, 0x7F, 0x5D, 0x7C,
        0x5B, 0x80, 0x2D, 0xFF, 0x5D, 0x7B, 0x31, 0x2C, 0x37, 0x7D, 0x5B, 0x00, 0x2D, 0x7F, 0x5D, 0x29,
      0x29] := by decide

theorem printSeq_replicate (p : Pat) (n : Nat) :
    (printSeq (List.replicate n p)).length = n * (print p).length := by
  induction n with
  | zero => simp [printSeq]
  | succ n ih =>
    rw [List.replicate_succ]
    unfold printSeq
    rw [List.length_append, ih, Nat.succ_mul, Nat.add_comm]

theorem print_btPat_length (n : Nat) : (print (btPat n)).length = 55 * n := by
  unfold btPat print
  rw [printSeq_replicate, print_btCol]
  simp only [List.length_cons, List.length_nil]
  omega

theorem btSubject_length (n : Nat) (hn : 1 ≤ n) : (btSubject n).length = n := by
  unfold btSubject
  simp only [List.length_append, List.length_replicate, List.length_cons, List.length_nil]
  omega

/-- a quadratic is eventually below `2 ^ n` -/
theorem quad_lt_two_pow (C : Nat) : ∃ n, 1 ≤ n ∧ C * (n * n) + 10 < 2 ^ n := by
  refine ⟨3 * (9 * C + 2), by omega, ?_⟩
  generalize hm : 9 * C + 2 = m
  have h1 : m + 1 ≤ 2 ^ m := Nat.lt_two_pow_self
  have h2 : (m + 1) ^ 3 ≤ (2 ^ m) ^ 3 := Nat.pow_le_pow_left h1 3
  have h3 : (2 ^ m) ^ 3 = 2 ^ (3 * m) := by rw [← Nat.pow_mul, Nat.mul_comm]
  have h4 : 9 * C * (m * m) + 2 * (m * m) = m * m * m := by rw [← hm]; ring
  have h5 : 2 ≤ m := by omega
  have h6 : 4 ≤ m * m := Nat.mul_le_mul h5 h5
  have h7 : (m + 1) ^ 3 = m * m * m + 3 * (m * m) + 3 * m + 1 := by ring
  have h8 : C * (3 * m * (3 * m)) = 9 * C * (m * m) := by ring
  rw [h8]
  omega

/-- the linear bound C18 plans: steps at most proportional to pattern length times subject length
(`+ 1` each so that the empty pattern and the empty subject, one step, do not refute it) -/
def RegexLinear_Full : Prop :=
  ∃ c, ∀ (sig : List (List Int)) (p : Pat) (s : List Nat), genSignature sig false = .ok p →
    steps (matchAtC p s) ≤ c * ((print p).length + 1) * (s.length + 1)

theorem regex_linear_full_false : ¬ RegexLinear_Full := by
  rintro ⟨c, h⟩
  obtain ⟨n, hn, hlt⟩ := quad_lt_two_pow (c * 112)
  have hb := h (btSig n) (btPat n) (btSubject n) (genSignature_bt n)
  rw [bt_matchAt n hn, print_btPat_length, btSubject_length n hn] at hb
  have e1 : c * (55 * n + 1) * (n + 1) ≤ c * 112 * (n * n) := by
    have a1 : 55 * n + 1 ≤ 56 * n := by omega
    have a2 : n + 1 ≤ 2 * n := by omega
    calc c * (55 * n + 1) * (n + 1) ≤ c * (56 * n) * (2 * n) :=
          Nat.mul_le_mul (Nat.mul_le_mul_left c a1) a2
      _ = c * 112 * (n * n) := by ring
  have hb' : 11 * 2 ^ n - 10 ≤ c * (55 * n + 1) * (n + 1) := hb
  omega

/-! ### 3. deterministic columns: the continuation is run at most once -/

/-- `M` spends at most `c` steps of its own and runs the continuation at most once, and only when
the subject starts with a byte satisfying `P`: the result is a failure after `n ≤ c` steps, or
that of the continuation on some rest `s'` with `n ≤ c` steps added — whether the continuation
succeeds or fails (if it fails, `M` fails: nothing else is tried that could run it again). -/
def Lin {α : Type} (M : List Nat → (List Nat → Res α) → Res α) (P : Nat → Prop) (c : Nat) : Prop :=
  ∀ (s : List Nat) (k : List Nat → Res α), ∃ n, n ≤ c ∧
    (M s k = (none, n) ∨ ∃ ch r s', s = ch :: r ∧ P ch ∧ M s k = tick n (k s'))

theorem Lin.mono {α : Type} {M : List Nat → (List Nat → Res α) → Res α} {P Q : Nat → Prop} {c d : Nat}
    (h : Lin M P c) (hpq : ∀ x, P x → Q x) (hcd : c ≤ d) : Lin M Q d := by
  intro s k
  obtain ⟨n, hn, hr⟩ := h s k
  refine ⟨n, Nat.le_trans hn hcd, ?_⟩
  rcases hr with hr | ⟨ch, r, s', hs, hp, hr⟩
  · exact Or.inl hr
  · exact Or.inr ⟨ch, r, s', hs, hpq _ hp, hr⟩

theorem tick_zero {α : Type} (r : Res α) : tick 0 r = r := by
  unfold tick; rw [Nat.zero_add]

theorem tick_tick {α : Type} (a b : Nat) (r : Res α) : tick a (tick b r) = tick (a + b) r := by
  unfold tick; simp only [Nat.add_assoc]

theorem tick_none {α : Type} (a b : Nat) : tick a ((none, b) : Res α) = (none, a + b) := rfl

theorem orElse_none {α : Type} (n : Nat) (y : Unit → Res α) : orElse (none, n) y = tick n (y ()) := rfl

/-- a choice whose first branch ran the continuation: if that succeeded the second branch is not
run; if it failed the second branch is, and when it fails after `j` steps the whole is the
continuation's failure with `j` more steps -/
theorem orElse_tick {α : Type} (n j : Nat) (x : Res α) (y : Unit → Res α) (hy : y () = (none, j)) :
    ∃ i, i ≤ j ∧ orElse (tick n x) y = tick (n + i) x := by
  rcases x with ⟨_ | a, c⟩
  · refine ⟨j, Nat.le_refl _, ?_⟩
    simp only [tick, orElse, hy]
    congr 1
    omega
  · exact ⟨0, Nat.zero_le _, rfl⟩

theorem lin_lit {α : Type} (b : Nat) : Lin (α := α) (mC (.lit b)) (fun c => c = b) 1 := by
  intro s k
  refine ⟨1, Nat.le_refl _, ?_⟩
  cases s with
  | nil => exact Or.inl rfl
  | cons c r =>
    by_cases h : c = b
    · exact Or.inr ⟨c, r, r, rfl, h, by simp only [mC, h, if_true]⟩
    · exact Or.inl (by simp only [mC, h, if_false]; rfl)

theorem lin_cls {α : Type} (lo hi : Nat) :
    Lin (α := α) (mC (.cls lo hi)) (fun c => lo ≤ c ∧ c ≤ hi) 1 := by
  intro s k
  refine ⟨1, Nat.le_refl _, ?_⟩
  cases s with
  | nil => exact Or.inl rfl
  | cons c r =>
    by_cases h : lo ≤ c ∧ c ≤ hi
    · exact Or.inr ⟨c, r, r, rfl, h, by simp only [mC, h, and_self, if_true]⟩
    · exact Or.inl (by simp only [mC, h, if_false]; rfl)

theorem lin_set {α : Type} (bs : List Nat) : Lin (α := α) (mC (.set bs)) (fun c => c ∈ bs) 1 := by
  intro s k
  refine ⟨1, Nat.le_refl _, ?_⟩
  cases s with
  | nil => exact Or.inl rfl
  | cons c r =>
    by_cases h : c ∈ bs
    · exact Or.inr ⟨c, r, r, rfl, h, by simp only [mC, h, if_true]⟩
    · exact Or.inl (by simp only [mC, h, if_false]; rfl)

/-- two alternatives that cannot start with the same byte -/
theorem lin_alt2 {α : Type} (X Y : Pat) (P Q : Nat → Prop) (cx cy : Nat)
    (hd : ∀ c, P c → Q c → False) (hx : Lin (α := α) (mC X) P cx) (hy : Lin (α := α) (mC Y) Q cy) :
    Lin (α := α) (mC (.alt [X, Y])) (fun c => P c ∨ Q c) (1 + cx + cy) := by
  intro s k
  obtain ⟨n1, h1, hX⟩ := hx s k
  obtain ⟨n2, h2, hY⟩ := hy s k
  have e : mC (.alt [X, Y]) s k =
      tick 1 (orElse (mC X s k) (fun _ => orElse (mC Y s k) (fun _ => (none, 0)))) := by
    simp only [mC, maltC]
  rw [e]
  rcases hX with hX | ⟨ch, r, s', hs, hP, hX⟩
  · rw [hX, orElse_none]
    rcases hY with hY | ⟨ch, r, s', hs, hQ, hY⟩
    · refine ⟨1 + n1 + n2, by omega, Or.inl ?_⟩
      rw [hY, orElse_none, tick_none, tick_none, tick_none]
      congr 1
      omega
    · obtain ⟨i, hi, hr⟩ := orElse_tick n2 0 (k s') (fun _ => ((none, 0) : Res α)) rfl
      refine ⟨1 + n1 + n2, by omega, Or.inr ⟨ch, r, s', hs, Or.inr hQ, ?_⟩⟩
      have hi0 : i = 0 := by omega
      subst hi0
      rw [hY, hr, tick_tick, tick_tick]
      rfl
  · rcases hY with hY | ⟨ch', r', s'', hs', hQ, hY⟩
    · obtain ⟨i, hi, hr⟩ := orElse_tick n1 n2 (k s')
        (fun _ => orElse (mC Y s k) (fun _ => (none, 0))) (by rw [hY, orElse_none]; rfl)
      refine ⟨1 + (n1 + i), by omega, Or.inr ⟨ch, r, s', hs, Or.inl hP, ?_⟩⟩
      rw [hX, hr, tick_tick]
    · rw [hs] at hs'
      injection hs' with h1 _
      subst h1
      exact absurd hQ (fun hq => hd _ hP hq)

/-- `[\x80-\xFF]{lo,hi}` in front of `[\x00-\x7F]`: every iteration given back is followed by one
failed attempt of the low-byte class on a high byte, so the continuation is run at most once and
at most `2 * hi + 1` leaves are visited (one less when `lo > 0`: the first iteration is not given
back) -/
theorem rep_hi {α : Type} (k : List Nat → Res α) : ∀ (hi lo : Nat) (s : List Nat), ∃ n,
    n + min lo 1 ≤ 2 * hi + 1 ∧
    (repLoopC (mC (.cls 0x80 0xFF)) hi lo s (fun s' => mC (.cls 0x00 0x7F) s' k) = (none, n) ∨
      ∃ ch r s', s = ch :: r ∧ ((0x80 ≤ ch ∧ ch ≤ 0xFF) ∨ lo = 0) ∧
        repLoopC (mC (.cls 0x80 0xFF)) hi lo s (fun s' => mC (.cls 0x00 0x7F) s' k) = tick n (k s')) := by
  intro hi
  induction hi with
  | zero =>
    intro lo s
    by_cases hlo : lo = 0
    · subst hlo
      obtain ⟨n, hn, hr⟩ := lin_cls (α := α) 0x00 0x7F s k
      refine ⟨n, by omega, ?_⟩
      have e0 : repLoopC (mC (.cls 0x80 0xFF)) 0 0 s (fun s' => mC (.cls 0x00 0x7F) s' k) =
          mC (.cls 0x00 0x7F) s k := by simp only [repLoopC, if_true]
      rw [e0]
      rcases hr with hr | ⟨ch, r, s', hs, _, hr⟩
      · exact Or.inl hr
      · exact Or.inr ⟨ch, r, s', hs, Or.inr rfl, hr⟩
    · refine ⟨0, by omega, Or.inl ?_⟩
      simp only [repLoopC, hlo, if_false]
  | succ hi ih =>
    intro lo s
    have e : repLoopC (mC (.cls 0x80 0xFF)) (hi + 1) lo s (fun s' => mC (.cls 0x00 0x7F) s' k) =
        orElse (mC (.cls 0x80 0xFF) s
            (fun s' => repLoopC (mC (.cls 0x80 0xFF)) hi (lo - 1) s' (fun s' => mC (.cls 0x00 0x7F) s' k)))
          (fun _ => if lo = 0 then mC (.cls 0x00 0x7F) s k else (none, 0)) := by
      simp only [repLoopC]
    rw [e]
    obtain ⟨n0, hn0, h0⟩ := lin_cls (α := α) 0x80 0xFF s
      (fun s' => repLoopC (mC (.cls 0x80 0xFF)) hi (lo - 1) s' (fun s' => mC (.cls 0x00 0x7F) s' k))
    rcases h0 with h0 | ⟨ch, r, s', hs, hH, h0⟩
    · -- no high byte in front
      rw [h0, orElse_none]
      by_cases hlo : lo = 0
      · subst hlo
        have e1 : (if (0 : Nat) = 0 then mC (.cls 0x00 0x7F) s k else ((none, 0) : Res α)) =
            mC (.cls 0x00 0x7F) s k := if_pos rfl
        rw [e1]
        obtain ⟨n, hn, hr⟩ := lin_cls (α := α) 0x00 0x7F s k
        refine ⟨n0 + n, by omega, ?_⟩
        rcases hr with hr | ⟨ch, r, s', hs, _, hr⟩
        · exact Or.inl (by rw [hr, tick_none])
        · exact Or.inr ⟨ch, r, s', hs, Or.inr rfl, by rw [hr, tick_tick]⟩
      · simp only [hlo, if_false]
        exact ⟨n0 + 0, by omega, Or.inl (tick_none _ _)⟩
    · -- a high byte: one iteration, then the rest
      have hfail : mC (.cls 0x00 0x7F) s k = (none, 1) := by
        subst hs
        have : ¬ (0 ≤ ch ∧ ch ≤ 0x7F) := by omega
        simp only [mC, this, if_false]
        rfl
      have hy : ∃ j, j + min lo 1 ≤ 1 ∧
          (if lo = 0 then mC (.cls 0x00 0x7F) s k else ((none, 0) : Res α)) = (none, j) := by
        by_cases hlo : lo = 0
        · exact ⟨1, by subst hlo; omega, by simp only [hlo, if_true, hfail]⟩
        · exact ⟨0, by omega, by simp only [hlo, if_false]⟩
      obtain ⟨j, hj, hy⟩ := hy
      obtain ⟨n, hn, hr⟩ := ih (lo - 1) s'
      rw [h0]
      rcases hr with hr | ⟨_, _, s'', _, _, hr⟩
      · refine ⟨n0 + n + j, by omega, Or.inl ?_⟩
        simp only [hr, tick_none, orElse_none]
        rw [hy]
        rfl
      · simp only [hr, tick_tick]
        obtain ⟨i, hi, hres⟩ := orElse_tick (n0 + n) j (k s'')
          (fun _ => if lo = 0 then mC (.cls 0x00 0x7F) s k else ((none, 0) : Res α)) hy
        exact ⟨n0 + n + i, by omega, Or.inr ⟨ch, r, s'', hs, Or.inl hH, hres⟩⟩

/-- `[\x80-\xFF]{1,7}[\x00-\x7F]` -/
theorem lin_varTail {α : Type} : Lin (α := α) (mC varTail) (fun c => 0x80 ≤ c ∧ c ≤ 0xFF) 16 := by
  intro s k
  have e : mC varTail s k =
      tick 2 (repLoopC (mC (.cls 0x80 0xFF)) 7 1 s (fun s' => mC (.cls 0x00 0x7F) s' k)) := by
    simp only [varTail, mC, mseqC, tick_tick]
  obtain ⟨n, hn, hr⟩ := rep_hi k 7 1 s
  refine ⟨2 + n, by omega, ?_⟩
  rw [e]
  rcases hr with hr | ⟨ch, r, s', hs, hP, hr⟩
  · exact Or.inl (by rw [hr, tick_none])
  · refine Or.inr ⟨ch, r, s', hs, ?_, by rw [hr, tick_tick]⟩
    rcases hP with hP | hP
    · exact hP
    · exact absurd hP (by decide)

/-- `(?:[\xLO-\x7F]|[\x80-\xFF]{1,7}[\x00-\x7F])`: the blob and the text pattern -/
theorem lin_varint {α : Type} (lo : Nat) :
    Lin (α := α) (mC (.alt [.cls lo 0x7F, varTail]))
      (fun c => (lo ≤ c ∧ c ≤ 0x7F) ∨ (0x80 ≤ c ∧ c ≤ 0xFF)) 18 := by
  refine Lin.mono (lin_alt2 (.cls lo 0x7F) varTail _ _ 1 16 ?_ (lin_cls lo 0x7F) lin_varTail)
    (fun _ h => h) (by decide)
  intro c h1 h2; omega

/-! ### 4. the columns `generate_signature_regex` emits when no column holds blobs *and* texts -/

/-- no column of the signature lists both -1 (blob) and -2 (text) -/
def NoBlobTextColumn (sig : List (List Int)) : Prop :=
  ∀ col ∈ sig, ¬ ((-1 : Int) ∈ col ∧ (-2 : Int) ∈ col)

instance (sig : List (List Int)) : Decidable (NoBlobTextColumn sig) := by
  unfold NoBlobTextColumn; infer_instance

theorem genSimplified_ok_range (t : Int) (p : Pat) (h : genSimplified t = .ok p) : -2 ≤ t ∧ t ≤ 9 := by
  unfold genSimplified at h
  split at h
  · omega
  · split at h
    · omega
    · split at h
      · omega
      · cases h

theorem scanCol_ok_range : ∀ (c : List Int) (a a' : Acc), scanCol c a = .ok a' →
    ∀ x ∈ c, -2 ≤ x ∧ x ≤ 9 := by
  intro c
  induction c with
  | nil => intro _ _ _ x hx; cases hx
  | cons t ts ih =>
    intro a a' h x hx
    unfold scanCol at h
    cases hg : genSimplified t with
    | error e => rw [hg] at h; cases h
    | ok p =>
      rw [hg] at h
      simp only at h
      have hts : ∀ x ∈ ts, -2 ≤ x ∧ x ≤ 9 := by
        split at h
        · exact ih _ _ h
        · split at h
          · exact ih _ _ h
          · exact ih _ _ h
      rcases List.mem_cons.1 hx with rfl | hx
      · exact genSimplified_ok_range _ p hg
      · exact hts x hx

theorem basicBytes_le (c : List Int) (hr : ∀ x ∈ c, -2 ≤ x ∧ x ≤ 9) :
    ∀ b ∈ Proofs.Regex.basicBytes c, b ≤ 9 := by
  intro b hb
  unfold Proofs.Regex.basicBytes at hb
  obtain ⟨t, ht, rfl⟩ := List.mem_map.1 hb
  have := hr t (List.mem_filter.1 ht).1
  omega

/-- `[b1 b2 …]` with serial-type bytes 0..9, then the blob or the text pattern -/
theorem lin_set_varint {α : Type} (bs : List Nat) (hbs : ∀ b ∈ bs, b ≤ 9) (lo : Nat) (hlo : 10 ≤ lo) :
    ∃ P, Lin (α := α) (mC (.alt [.set bs, .alt [.cls lo 0x7F, varTail]])) P 20 := by
  refine ⟨_, lin_alt2 (.set bs) (.alt [.cls lo 0x7F, varTail]) _ _ 1 18 ?_ (lin_set bs) (lin_varint lo)⟩
  intro c h1 h2
  have := hbs c h1
  omega

/-- every column pattern emitted for a column that does not hold both blobs and texts runs its
continuation at most once and spends at most 20 steps of its own -/
theorem genColumn_lin {α : Type} (c : List Int) (p : Pat) (h : genColumn c = .ok p)
    (hn : ¬ ((-1 : Int) ∈ c ∧ (-2 : Int) ∈ c)) : ∃ P, Lin (α := α) (mC p) P 20 := by
  unfold genColumn at h
  split at h
  · -- a single alternative
    unfold genSimplified at h
    split at h
    · cases h
      exact ⟨_, (lin_varint 0x0C).mono (fun _ h => h) (by decide)⟩
    · split at h
      · cases h
        exact ⟨_, (lin_varint 0x0D).mono (fun _ h => h) (by decide)⟩
      · split at h
        · cases h
          exact ⟨_, (lin_lit _).mono (fun _ h => h) (by decide)⟩
        · cases h
  · split at h
    · cases hsc : scanCol c ⟨[], none, none⟩ with
      | error e => rw [hsc] at h; cases h
      | ok a =>
        have hr := scanCol_ok_range c _ _ hsc
        have hbs := basicBytes_le c hr
        rw [Proofs.Regex.scanCol_spec c _ hr] at h
        simp only [List.nil_append] at h
        by_cases hb : (-1 : Int) ∈ c <;> by_cases ht : (-2 : Int) ∈ c
        · exact absurd ⟨hb, ht⟩ hn
        · simp only [hb, ht, if_true, if_false] at h
          split at h
          · cases h
          · cases h
            exact lin_set_varint _ hbs 0x0D (by decide)
        · simp only [hb, ht, if_true, if_false] at h
          split at h
          · cases h
          · cases h
            exact lin_set_varint _ hbs 0x0C (by decide)
        · simp only [hb, ht, if_false] at h
          split at h
          · cases h
          · cases h
            exact ⟨_, (lin_set _).mono (fun _ h => h) (by decide)⟩
    · cases h

/-! ### 5. the concatenation, `matchAt`, `finditer` -/

theorem mseqC_lin {α : Type} (c : Nat) : ∀ (ps : List Pat),
    (∀ p ∈ ps, ∃ P, Lin (α := α) (mC p) P c) →
    ∀ (s : List Nat) (k : List Nat → Res α), ∃ n, n ≤ c * ps.length ∧
      (mseqC ps s k = (none, n) ∨ ∃ s', mseqC ps s k = tick n (k s')) := by
  intro ps
  induction ps with
  | nil =>
    intro _ s k
    exact ⟨0, Nat.le_refl _, Or.inr ⟨s, by simp only [mseqC, tick_zero]⟩⟩
  | cons p ps ih =>
    intro hps s k
    obtain ⟨P, hp⟩ := hps p (List.mem_cons_self ..)
    have ih' := ih (fun q hq => hps q (List.mem_cons_of_mem _ hq))
    obtain ⟨n1, h1, hr⟩ := hp s (fun s' => mseqC ps s' k)
    have e : mseqC (p :: ps) s k = mC p s (fun s' => mseqC ps s' k) := by simp only [mseqC]
    rw [e, List.length_cons, Nat.mul_succ]
    rcases hr with hr | ⟨_, _, s', _, _, hr⟩
    · exact ⟨n1, by omega, Or.inl hr⟩
    · obtain ⟨n2, h2, hr2⟩ := ih' s' k
      refine ⟨n1 + n2, by omega, ?_⟩
      rw [hr]
      rcases hr2 with hr2 | ⟨s'', hr2⟩
      · exact Or.inl (by rw [hr2, tick_none])
      · exact Or.inr ⟨s'', by rw [hr2, tick_tick]⟩

theorem genColumns_lin {α : Type} : ∀ (cols : List (List Int)) (ps : List Pat),
    genColumns cols = .ok ps → NoBlobTextColumn cols →
    ps.length = cols.length ∧ ∀ p ∈ ps, ∃ P, Lin (α := α) (mC p) P 20 := by
  intro cols
  induction cols with
  | nil =>
    intro ps h _
    unfold genColumns at h
    cases h
    exact ⟨rfl, fun p hp => by cases hp⟩
  | cons c cs ih =>
    intro ps h hn
    unfold genColumns at h
    cases hc : genColumn c with
    | error e => rw [hc] at h; cases h
    | ok p =>
      cases hcs : genColumns cs with
      | error e => rw [hc, hcs] at h; cases h
      | ok qs =>
        rw [hc, hcs] at h
        cases h
        obtain ⟨hl, hq⟩ := ih qs hcs (fun col hcol => hn col (List.mem_cons_of_mem _ hcol))
        refine ⟨by simp only [List.length_cons, hl], ?_⟩
        intro q hq'
        rcases List.mem_cons.1 hq' with rfl | hq'
        · exact genColumn_lin c q hc (hn c (List.mem_cons_self ..))
        · exact hq q hq'

/-- the columns the pattern is generated from -/
def columns (sig : List (List Int)) (skipFirst : Bool) : List (List Int) :=
  if skipFirst then sig.drop 1 else sig

theorem columns_length_le (sig : List (List Int)) (skipFirst : Bool) :
    (columns sig skipFirst).length ≤ sig.length := by
  unfold columns
  split
  · rw [List.length_drop]; omega
  · exact Nat.le_refl _

theorem noBlobText_columns (sig : List (List Int)) (skipFirst : Bool) (h : NoBlobTextColumn sig) :
    NoBlobTextColumn (columns sig skipFirst) := by
  unfold columns
  split
  · exact fun col hcol => h col (List.mem_of_mem_drop hcol)
  · exact h

theorem genSignature_ok (sig : List (List Int)) (skipFirst : Bool) (p : Pat)
    (h : genSignature sig skipFirst = .ok p) :
    ∃ ps, p = .seq ps ∧ genColumns (columns sig skipFirst) = .ok ps := by
  unfold genSignature at h
  unfold columns
  cases hc : genColumns (if skipFirst = true then sig.drop 1 else sig) with
  | error e => rw [hc] at h; cases h
  | ok ps => rw [hc] at h; cases h; exact ⟨ps, rfl, rfl⟩

/-- **linear upper bound for one match attempt**: at most 20 steps per column and one for the
concatenation node, for every subject -/
theorem matchAtC_le (sig : List (List Int)) (skipFirst : Bool) (p : Pat)
    (hsig : NoBlobTextColumn (columns sig skipFirst)) (h : genSignature sig skipFirst = .ok p)
    (s : List Nat) :
    steps (matchAtC p s) ≤ 20 * (columns sig skipFirst).length + 1 := by
  obtain ⟨ps, rfl, hps⟩ := genSignature_ok sig skipFirst p h
  obtain ⟨hl, hlin⟩ := genColumns_lin (α := List Nat) _ ps hps hsig
  obtain ⟨n, hn, hr⟩ := mseqC_lin 20 ps hlin s (fun r => (some r, 0))
  have e : matchAtC (.seq ps) s = tick 1 (mseqC ps s (fun r => (some r, 0))) := by
    simp only [matchAtC, mC]
  rw [e, ← hl]
  rcases hr with hr | ⟨s', hr⟩
  · rw [hr]
    show 1 + n ≤ _
    omega
  · rw [hr]
    show 1 + (n + 0) ≤ _
    omega

/-- the scan makes at most `fuel` match attempts -/
theorem finditerAuxC_le (p : Pat) (B : Nat) (hB : ∀ s, steps (matchAtC p s) ≤ B) :
    ∀ (fuel : Nat) (s : List Nat) (pos : Nat), steps (finditerAuxC p fuel s pos) ≤ fuel * B := by
  intro fuel
  induction fuel with
  | zero => intro s pos; simp only [finditerAuxC, Nat.zero_mul]; exact Nat.le_refl _
  | succ fuel ih =>
    intro s pos
    have hb := hB s
    rw [Nat.succ_mul]
    simp only [finditerAuxC]
    rcases hC : matchAtC p s with ⟨_ | a, n⟩ <;> rw [hC] at hb <;> simp only
    · show steps (consC _ _ _) ≤ _
      unfold steps at *
      rw [consC_snd]
      cases s with
      | nil => simp only; omega
      | cons c t => have := ih t (pos + 1); simp only; omega
    · split
      · unfold steps at *
        rw [consC_snd]
        cases s with
        | nil => simp only; omega
        | cons c t => have := ih t (pos + 1); simp only; omega
      · unfold steps at *
        rw [consC_snd]
        have := ih a (pos + (s.length - a.length))
        omega

theorem finditerC_le (sig : List (List Int)) (skipFirst : Bool) (p : Pat)
    (hsig : NoBlobTextColumn (columns sig skipFirst)) (h : genSignature sig skipFirst = .ok p)
    (s : List Nat) :
    steps (finditerC p s) ≤ (s.length + 1) * (20 * (columns sig skipFirst).length + 1) :=
  finditerAuxC_le p _ (matchAtC_le sig skipFirst p hsig h) _ s 0

/-- the first attempt of the scan is `matchAt` on the whole subject -/
theorem finditerC_ge (p : Pat) (s : List Nat) : steps (matchAtC p s) ≤ steps (finditerC p s) := by
  unfold finditerC
  simp only [finditerAuxC]
  rcases hC : matchAtC p s with ⟨_ | a, n⟩ <;> simp only
  · unfold steps; rw [consC_snd]; omega
  · split <;> (unfold steps; rw [consC_snd]; omega)

/-! ### 6. in terms of the length of the pattern text -/

theorem genColumn_form (c : List Int) (p : Pat) (h : genColumn c = .ok p) :
    (∃ b, p = .lit b) ∨ (∃ bs, p = .set bs) ∨ (∃ ps, p = .alt ps) := by
  unfold genColumn at h
  split at h
  · unfold genSimplified at h
    split at h
    · cases h; exact Or.inr (Or.inr ⟨_, rfl⟩)
    · split at h
      · cases h; exact Or.inr (Or.inr ⟨_, rfl⟩)
      · split at h
        · cases h; exact Or.inl ⟨_, rfl⟩
        · cases h
  · split at h
    · split at h
      · cases h
      · split at h <;> split at h <;> first
          | (cases h; done)
          | (cases h; exact Or.inr (Or.inl ⟨_, rfl⟩))
          | (cases h; exact Or.inr (Or.inr ⟨_, rfl⟩))
    · cases h

theorem genColumn_print_pos (c : List Int) (p : Pat) (h : genColumn c = .ok p) :
    1 ≤ (print p).length := by
  rcases genColumn_form c p h with ⟨b, rfl⟩ | ⟨bs, rfl⟩ | ⟨ps, rfl⟩
  · simp only [print, List.length_cons, List.length_nil]; omega
  · simp only [print, List.length_cons]; omega
  · simp only [print, List.length_append, List.length_cons]; omega

theorem genColumns_print_length : ∀ (cols : List (List Int)) (ps : List Pat),
    genColumns cols = .ok ps → cols.length ≤ (printSeq ps).length := by
  intro cols
  induction cols with
  | nil => intro ps _; exact Nat.zero_le _
  | cons c cs ih =>
    intro ps h
    unfold genColumns at h
    cases hc : genColumn c with
    | error e => rw [hc] at h; cases h
    | ok p =>
      cases hcs : genColumns cs with
      | error e => rw [hc, hcs] at h; cases h
      | ok qs =>
        rw [hc, hcs] at h
        cases h
        have h1 := genColumn_print_pos c p hc
        have h2 := ih qs hcs
        unfold printSeq
        rw [List.length_append, List.length_cons]
        omega

/-- every column contributes at least one byte of pattern text -/
theorem columns_le_print (sig : List (List Int)) (skipFirst : Bool) (p : Pat)
    (h : genSignature sig skipFirst = .ok p) : (columns sig skipFirst).length ≤ (print p).length := by
  obtain ⟨ps, rfl, hps⟩ := genSignature_ok sig skipFirst p h
  unfold print
  exact genColumns_print_length _ ps hps

/-- the same planned bound for the whole scan -/
def FinditerLinear_Full : Prop :=
  ∃ c, ∀ (sig : List (List Int)) (p : Pat) (s : List Nat), genSignature sig false = .ok p →
    steps (finditerC p s) ≤ c * ((print p).length + 1) * (s.length + 1)

theorem finditer_linear_full_false : ¬ FinditerLinear_Full := by
  rintro ⟨c, h⟩
  exact regex_linear_full_false
    ⟨c, fun sig p s hp => Nat.le_trans (finditerC_ge p s) (h sig p s hp)⟩

/-- with the hypothesis both planned bounds hold, with constant 21 -/
theorem regex_linear_partial (sig : List (List Int)) (skipFirst : Bool) (p : Pat)
    (hsig : NoBlobTextColumn (columns sig skipFirst)) (h : genSignature sig skipFirst = .ok p)
    (s : List Nat) :
    steps (matchAtC p s) ≤ 21 * ((print p).length + 1) * (s.length + 1) ∧
    steps (finditerC p s) ≤ 21 * ((print p).length + 1) * (s.length + 1) := by
  have h1 := matchAtC_le sig skipFirst p hsig h s
  have h2 := finditerC_le sig skipFirst p hsig h s
  have h3 := columns_le_print sig skipFirst p h
  have h4 : 20 * (columns sig skipFirst).length + 1 ≤ 21 * ((print p).length + 1) := by omega
  have h5 : (s.length + 1) * (20 * (columns sig skipFirst).length + 1) ≤
      21 * ((print p).length + 1) * (s.length + 1) := by
    rw [Nat.mul_comm]
    exact Nat.mul_le_mul_right _ h4
  refine ⟨?_, Nat.le_trans h2 h5⟩
  refine Nat.le_trans h1 (Nat.le_trans h4 ?_)
  exact Nat.le_mul_of_pos_right _ (Nat.succ_pos _)

end SqliteDissect.Proofs.RegexCost
