import SqliteDissect.Model.Tree
import SqliteDissect.Spec.CellFmt
namespace SqliteDissect.Proofs.CellArith
end SqliteDissect.Proofs.CellArith
