import SqliteDissect.Model.Tree
import SqliteDissect.Spec.CellFmt
namespace SqliteDissect.Proofs.CellArith
open SqliteDissect SqliteDissect.Model

/-! ### payload constants -/

theorem payloadConst_eq (u k : Nat) (hk : k = 32 ∨ k = 64) (hu : 512 ≤ u) :
    payloadConst u k = (((u - 12) * k / 255 - 23 : Nat) : Int) := by
  unfold payloadConst
  rcases hk with rfl | rfl <;> simp only [] <;> split <;> (try split) <;> omega

theorem payload_constants (u : Nat) (hu : 512 ≤ u) :
    payloadConst u 32 = (Spec.minLocal u : Int) ∧ payloadConst u 64 = (Spec.maxLocalIndex u : Int) := by
  constructor
  · rw [payloadConst_eq u 32 (Or.inl rfl) hu]; rfl
  · rw [payloadConst_eq u 64 (Or.inr rfl) hu]; rfl

/-! ### local payload -/

theorem minLocal_le (u : Nat) (hu : 512 ≤ u) : Spec.minLocal u ≤ u - 35 ∧ Spec.minLocal u ≤ Spec.maxLocalIndex u := by
  unfold Spec.minLocal Spec.maxLocalIndex; omega

theorem localPayload_eq (u : Nat) (hu : 512 ≤ u) (L : Nat) (hL : Spec.minLocal u ≤ L) (p : Nat) :
    localPayload u (L : Int) (p : Int) =
      ((Spec.localSize u L p : Int), decide (L < p), if L < p then (Spec.minLocal u : Int) else 0) := by
  unfold localPayload Spec.localSize
  rw [(payload_constants u hu).1]
  by_cases h : L < p
  · have h1 : (p : Int) > (L : Int) := by omega
    have h2 : ¬ p ≤ L := by omega
    have e1 : (p : Int) - (Spec.minLocal u : Int) = ((p - Spec.minLocal u : Nat) : Int) := by omega
    have e2 : (u : Int) - 4 = ((u - 4 : Nat) : Int) := by omega
    simp only [h1, h2, h, if_true, if_false, decide_true, e1, e2, ← Int.natCast_emod, ← Int.natCast_add,
      gt_iff_lt, Int.ofNat_lt]
    by_cases h3 : Spec.minLocal u + (p - Spec.minLocal u) % (u - 4) ≤ L
    · have h4 : ¬ L < Spec.minLocal u + (p - Spec.minLocal u) % (u - 4) := by omega
      simp only [h3, h4, if_true, if_false]
    · have h4 : L < Spec.minLocal u + (p - Spec.minLocal u) % (u - 4) := by omega
      simp only [h3, h4, if_true, if_false]
  · have h1 : ¬ (p : Int) > (L : Int) := by omega
    have h2 : p ≤ L := by omega
    simp only [h1, h2, h, if_true, if_false, decide_false]

theorem table_local_eq_spec (u : Nat) (hu : 512 ≤ u) (p : Nat) :
    localPayload u ((u : Int) - 35) (p : Int) =
      ((Spec.localSize u (Spec.maxLeaf u) p : Int), decide (Spec.maxLeaf u < p),
        if Spec.maxLeaf u < p then (Spec.minLocal u : Int) else 0) := by
  have e : (u : Int) - 35 = ((Spec.maxLeaf u : Nat) : Int) := by unfold Spec.maxLeaf; omega
  rw [e]
  exact localPayload_eq u hu _ (by unfold Spec.maxLeaf; exact (minLocal_le u hu).1) p

theorem index_local_eq_spec (u : Nat) (hu : 512 ≤ u) (p : Nat) :
    localPayload u (payloadConst u 64) (p : Int) =
      ((Spec.localSize u (Spec.maxLocalIndex u) p : Int), decide (Spec.maxLocalIndex u < p),
        if Spec.maxLocalIndex u < p then (Spec.minLocal u : Int) else 0) := by
  rw [(payload_constants u hu).2]
  exact localPayload_eq u hu _ (minLocal_le u hu).2 p

theorem local_bounds (u : Nat) (_hu : 512 ≤ u) (maxLoc : Nat) (hm : Spec.minLocal u ≤ maxLoc) (p : Nat)
    (hp : maxLoc < p) :
    Spec.minLocal u ≤ Spec.localSize u maxLoc p ∧ Spec.localSize u maxLoc p ≤ maxLoc ∧
      Spec.localSize u maxLoc p < p := by
  unfold Spec.localSize
  have h2 : ¬ p ≤ maxLoc := by omega
  simp only [h2, if_false]
  split <;> omega

/-! ### expected overflow -/

theorem ceil_props (k n : Nat) (hk : 0 < k) (hn : 0 < n) :
    0 < (n + k - 1) / k ∧ ((n + k - 1) / k - 1) * k < n ∧ n ≤ (n + k - 1) / k * k := by
  have h1 := Nat.div_add_mod (n + k - 1) k
  have h2 := Nat.mod_lt (n + k - 1) hk
  have h3 : 0 < (n + k - 1) / k := Nat.div_pos (by omega) hk
  rw [Nat.mul_comm] at h1
  refine ⟨h3, ?_, by omega⟩
  rw [Nat.sub_mul]; omega

theorem overflow_fill_bounds (u : Nat) (hu : 4 < u) (n : Nat) (hn : 0 < n) :
    0 < Spec.lastOverflowFill u n ∧ Spec.lastOverflowFill u n ≤ u - 4 ∧
      (Spec.overflowPages u n - 1) * (u - 4) + Spec.lastOverflowFill u n = n ∧ 0 < Spec.overflowPages u n := by
  unfold Spec.lastOverflowFill Spec.overflowPages
  obtain ⟨h1, h2, h3⟩ := ceil_props (u - 4) n (by omega) hn
  generalize (n + (u - 4) - 1) / (u - 4) = c at *
  rw [Nat.sub_mul] at *
  omega

/-- `calculate_expected_overflow` is a closed form: no recursion on `n` -/
theorem expected_overflow_constant_time (n : Int) (ps : Nat) :
    calcExpectedOverflow n ps =
      if n ≤ 0 then some (0, n)
      else if ps ≤ 4 then none
      else some ((n.toNat + (ps - 4) - 1) / (ps - 4),
        n - (((n.toNat + (ps - 4) - 1) / (ps - 4) - 1) * (ps - 4) : Nat)) := by
  unfold calcExpectedOverflow
  have hg : Generated.OVERFLOW_HEADER_LENGTH = 4 := rfl
  rw [hg]
  by_cases h : n ≤ 0
  · have h1 : ¬ n > 0 := by omega
    rw [if_neg h1, if_pos h]
  · have h1 : n > 0 := by omega
    rw [if_pos h1, if_neg h]

theorem overflow_closed_form (u : Nat) (hu : 4 < u) (n : Nat) (hn : 0 < n) :
    calcExpectedOverflow (n : Int) u =
      some (Spec.overflowPages u n, (Spec.lastOverflowFill u n : Int)) := by
  rw [expected_overflow_constant_time]
  have h1 : ¬ (n : Int) ≤ 0 := by omega
  have h2 : ¬ u ≤ 4 := by omega
  rw [if_neg h1, if_neg h2]
  unfold Spec.lastOverflowFill Spec.overflowPages
  simp only [Int.toNat_natCast]
  obtain ⟨_, h3, _⟩ := ceil_props (u - 4) n (by omega) hn
  generalize ((n + (u - 4) - 1) / (u - 4) - 1) * (u - 4) = m at *
  congr 2
  omega

theorem overflow_none (u : Nat) (n : Int) (hn : n ≤ 0) : calcExpectedOverflow n u = some (0, n) := by
  rw [expected_overflow_constant_time, if_pos hn]

/-! ### pointer-map pages -/

theorem mod_zero_iff (a m : Nat) : a % m = 0 ↔ a / m * m = a := by
  have := Nat.div_add_mod a m
  rw [Nat.mul_comm] at this
  omega

theorem ptrmap_iff (D E : Nat) (p n : Nat) (_hE : 0 < E) :
    (p, n) ∈ Spec.ptrmapPages D E ↔
      (2 ≤ p ∧ p < D ∧ (p - 2) / (E + 1) * (E + 1) + 2 = p ∧ n = min E (D - p)) := by
  unfold Spec.ptrmapPages
  simp only [List.mem_filterMap, List.mem_range]
  constructor
  · rintro ⟨i, hi, h⟩
    split at h
    · rename_i hc
      simp only [Option.some.injEq, Prod.mk.injEq] at h
      obtain ⟨rfl, rfl⟩ := h
      refine ⟨hc.1, hc.2.1, ?_, rfl⟩
      have := (mod_zero_iff _ _).1 hc.2.2
      omega
    · cases h
  · rintro ⟨h1, h2, h3, rfl⟩
    refine ⟨p - 1, by omega, ?_⟩
    have e : p - 1 + 1 = p := by omega
    simp only [e]
    have h4 : (p - 2) % (E + 1) = 0 := (mod_zero_iff _ _).2 (by omega)
    simp only [h1, h2, h4, and_self, if_true]

/-- explicit enumeration of pointer-map pages from position `p` -/
def enum (D E : Nat) : Nat → Nat → List (Nat × Nat)
  | 0, _ => []
  | fuel+1, p => if p < D then (p, min E (D - p)) :: enum D E fuel (p + E + 1) else []

theorem enum_nil (D E fuel p : Nat) (h : D ≤ p) : enum D E fuel p = [] := by
  cases fuel with
  | zero => rfl
  | succ f => unfold enum; simp only [Nat.not_lt.2 h, if_false]

theorem loop_eq_enum (D E : Nat) (hmod : (D - 2) % (E + 1) ≠ 0) (hD : 2 ≤ D) :
    ∀ (fuel p n : Nat) (acc : List (Nat × Nat)), p = n * (E + 1) + 2 → 0 < fuel → D < fuel + p →
      ptrmapPlanLoop D E fuel p n acc = .ok (acc ++ enum D E fuel p) := by
  intro fuel
  induction fuel with
  | zero =>
    intro p n acc hp h0 hf
    omega
  | succ fuel ih =>
    intro p n acc hp _ hf
    unfold ptrmapPlanLoop enum
    by_cases hpD : p < D
    · simp only [hpD, if_true]
      have hne : ¬ ((n + 1) * E + 2 + (n + 1) = D) := by
        intro h
        apply hmod
        have : D - 2 = (n + 1) * (E + 1) := by rw [Nat.mul_add, Nat.mul_one]; omega
        rw [this, Nat.mul_mod_left]
      have e1 : (n + 1) * E + 2 + (n + 1) = p + E + 1 := by
        rw [hp, Nat.add_mul, Nat.mul_add, Nat.mul_one]; omega
      have e1' : p + E + 1 = (n + 1) * (E + 1) + 2 := by
        rw [hp, Nat.add_mul]; omega
      simp only [hne, if_false]
      rw [e1] at hne ⊢
      rw [ih _ _ _ e1' (by omega) (by omega)]
      simp only [List.append_assoc, List.cons_append, List.nil_append]
      congr 4
      by_cases h2 : p + E + 1 > D
      · simp only [h2, if_true, Nat.add_sub_cancel]
        have : p = n * E + n + 2 := by rw [hp, Nat.mul_add, Nat.mul_one]
        have hc : ((n * E : Nat) : Int) = (n : Int) * E := by simp
        omega
      · simp only [h2, if_false]; omega
    · simp only [hpD, if_false, List.append_nil]

def specF (D E : Nat) (i : Nat) : Option (Nat × Nat) :=
  let p := i + 1
  if 2 ≤ p ∧ p < D ∧ (p - 2) % (E + 1) = 0 then some (p, min E (D - p)) else none

theorem spec_eq_specF (D E : Nat) : Spec.ptrmapPages D E = (List.range D).filterMap (specF D E) := rfl

theorem spec_block (D E s m : Nat) (hs : 1 ≤ s) (hmod : (s - 1) % (E + 1) = 0) (hm : m ≤ E) :
    (List.range' (s + 1) m).filterMap (specF D E) = [] := by
  rw [List.filterMap_eq_nil_iff]
  intro i hi
  rw [List.mem_range'_1] at hi
  unfold specF
  have e : i + 1 - 2 = (s - 1) + (i - s) := by omega
  have h : (i + 1 - 2) % (E + 1) ≠ 0 := by
    rw [e, Nat.add_mod, hmod, Nat.zero_add, Nat.mod_mod, Nat.mod_eq_of_lt (by omega)]
    omega
  simp only [h, and_false, if_false]

theorem spec_enum (D E : Nat) : ∀ (fuel s len : Nat), s + len = D → 1 ≤ s → (s - 1) % (E + 1) = 0 →
    D < fuel + (s + 1) → (List.range' s len).filterMap (specF D E) = enum D E fuel (s + 1) := by
  intro fuel
  induction fuel with
  | zero =>
    intro s len h1 h2 h3 h4
    have : len = 0 := by omega
    subst this
    rfl
  | succ fuel ih =>
    intro s len h1 h2 h3 h4
    unfold enum
    by_cases hs : s + 1 < D
    · simp only [hs, if_true]
      obtain ⟨len', rfl⟩ : ∃ l, len = l + 1 := ⟨len - 1, by omega⟩
      rw [List.range'_succ]
      have e0 : s + 1 - 2 = s - 1 := by omega
      have hf : specF D E s = some (s + 1, min E (D - (s + 1))) := by
        unfold specF
        simp only [e0, h3, hs, and_true, if_true, show 2 ≤ s + 1 by omega]
      rw [List.filterMap_cons_some hf]
      congr 1
      by_cases hl : len' ≤ E
      · rw [spec_block D E s len' h2 h3 hl, enum_nil _ _ _ _ (by omega)]
      · have e : len' = E + (len' - E) := by omega
        rw [e, ← List.range'_append_1, List.filterMap_append, spec_block D E s E h2 h3 (Nat.le_refl _),
          List.nil_append]
        have e2 : s + 1 + E + 1 = (s + 1 + E) + 1 := rfl
        rw [e2]
        apply ih
        · omega
        · omega
        · have : s + 1 + E - 1 = (s - 1) + (E + 1) := by omega
          rw [this, Nat.add_mod_right, h3]
        · omega
    · simp only [hs, if_false]
      rw [List.filterMap_eq_nil_iff]
      intro i hi
      rw [List.mem_range'_1] at hi
      unfold specF
      have : ¬ i + 1 < D := by omega
      simp only [this, false_and, and_false, if_false]

theorem spec_eq_enum (D E : Nat) (hD : 2 ≤ D) : Spec.ptrmapPages D E = enum D E (D + 1) 2 := by
  rw [spec_eq_specF, List.range_eq_range']
  obtain ⟨d, rfl⟩ : ∃ d, D = d + 1 := ⟨D - 1, by omega⟩
  rw [List.range'_succ, List.filterMap_cons]
  have : specF (d + 1) E 0 = none := by
    unfold specF; simp
  rw [this]
  exact spec_enum (d + 1) E (d + 1 + 1) 1 d (by omega) (Nat.le_refl _) (by simp) (by omega)

theorem next_ne (D E : Nat) (hmod : (D - 2) % (E + 1) ≠ 0) (n : Nat) : n * (E + 1) + 2 ≠ D := by
  intro h
  apply hmod
  have : D - 2 = n * (E + 1) := by omega
  rw [this, Nat.mul_mod_left]

theorem total_enum (D E : Nat) (hmod : (D - 2) % (E + 1) ≠ 0) :
    ∀ (fuel p n : Nat), p = n * (E + 1) + 2 → p < D → D < fuel + p →
      (enum D E fuel p).foldl (fun s pe => s + 1 + pe.2) (p - 1) = D := by
  intro fuel
  induction fuel with
  | zero => intro p n hp hD h0; omega
  | succ fuel ih =>
    intro p n hp hD _
    unfold enum
    simp only [hD, if_true, List.foldl_cons]
    have e1' : p + E + 1 = (n + 1) * (E + 1) + 2 := by
      rw [hp, Nat.add_mul]; omega
    have hne := next_ne D E hmod (n + 1)
    rw [← e1'] at hne
    by_cases h2 : p + E + 1 < D
    · have := ih _ _ e1' h2 (by omega)
      refine Eq.trans ?_ this
      congr 1
      omega
    · rw [enum_nil _ _ _ _ (by omega)]
      simp only [List.foldl_nil]
      omega

theorem ptrmap_eq_spec (D ps : Nat) (_hps : 5 ≤ ps) (hD : 3 ≤ D)
    (hlast : (D - 2) % (ps / 5 + 1) ≠ 0) :
    ptrmapPlan D ps = .ok (Spec.ptrmapPages D (ps / 5)) := by
  unfold ptrmapPlan
  simp only [Generated.POINTER_MAP_ENTRY_LENGTH]
  rw [loop_eq_enum D (ps / 5) hlast (by omega) (D + 1) 2 0 [] (by omega) (by omega) (by omega)]
  have ht := total_enum D (ps / 5) hlast (D + 1) 2 0 (by omega) (by omega) (by omega)
  simp only [List.nil_append, bind, Except.bind, Nat.add_one_sub_one] at ht ⊢
  simp only [ht, ne_eq, not_true_eq_false, if_false, spec_eq_enum D _ (show 2 ≤ D by omega)]
  rfl

theorem loop_refused (D E K : Nat) (hD : D = K * (E + 1) + 2) :
    ∀ (fuel n : Nat) (acc : List (Nat × Nat)), n < K → K < fuel + n →
      ptrmapPlanLoop D E fuel (n * (E + 1) + 2) n acc = .error .parseError := by
  intro fuel
  induction fuel with
  | zero => intro n acc h1 h2; omega
  | succ fuel ih =>
    intro n acc h1 h2
    unfold ptrmapPlanLoop
    have hlt : n * (E + 1) + 2 < D := by
      rw [hD]
      have := Nat.mul_lt_mul_of_lt_of_le h1 (Nat.le_refl (E + 1)) (by omega)
      omega
    simp only [hlt, if_true]
    have e1 : (n + 1) * E + 2 + (n + 1) = (n + 1) * (E + 1) + 2 := by
      rw [Nat.mul_add, Nat.mul_one]; omega
    rw [e1]
    by_cases hn : n + 1 = K
    · have : (n + 1) * (E + 1) + 2 = D := by rw [hD, hn]
      simp only [this, if_true]
    · have : ¬ (n + 1) * (E + 1) + 2 = D := by
        rw [hD]
        intro h
        have h' : (n + 1) * (E + 1) = K * (E + 1) := by omega
        exact hn (Nat.eq_of_mul_eq_mul_right (by omega) h')
      simp only [this, if_false]
      exact ih _ _ (by omega) (by omega)

theorem ptrmap_last_page_refused (D ps : Nat) (_hps : 5 ≤ ps) (hD : 2 ≤ D)
    (hlast : (D - 2) % (ps / 5 + 1) = 0) :
    ptrmapPlan D ps = .error .parseError := by
  unfold ptrmapPlan
  simp only [Generated.POINTER_MAP_ENTRY_LENGTH]
  have hK : D = (D - 2) / (ps / 5 + 1) * (ps / 5 + 1) + 2 := by
    have := (mod_zero_iff _ _).1 hlast
    omega
  generalize (D - 2) / (ps / 5 + 1) = K at hK
  rcases K with _ | K
  · have : D = 2 := by omega
    subst this
    rfl
  · have := loop_refused D (ps / 5) (K + 1) hK (D + 1) 0 [] (by omega) (by
      have : K + 1 ≤ (K + 1) * (ps / 5 + 1) := Nat.le_mul_of_pos_right _ (by omega)
      omega)
    simp only [Nat.zero_mul, Nat.zero_add] at this
    rw [this]
    rfl

/-! ### overflow chains -/

def PageOK (k : Nat) (r : Int) (pg : OvflPage) : Prop :=
  0 < r ∧ (r ≤ k → pg.next = 0 ∧ pg.contentLength = r.toNat) ∧ ((k : Int) < r → pg.contentLength = k)

theorem parseOverflowPage_ok (v : VersionIf) (hu : 4 < v.pageSize) (number : Nat) (r : Int) (pg : OvflPage)
    (h : parseOverflowPage v number r = .ok pg) : PageOK (v.pageSize - 4) r pg := by
  unfold parseOverflowPage at h
  generalize hG : Generated.OVERFLOW_HEADER_LENGTH = g at h
  have hg : g = 4 := by rw [← hG]; rfl
  clear hG
  simp only [bind, Except.bind, pure, Except.pure, decide_eq_true_eq] at h
  split at h
  · cases h
  split at h
  · cases h
  split at h
  · cases h
  split at h
  · cases h
  split at h
  · cases h
  rename_i _ pv _ _ _ _ hr _ _ _ _ next _
  have key : ∀ pg, pg = (⟨number, next, ((if r ≤ (v.pageSize : Int) - g then r + g else (v.pageSize : Int)) - g).toNat, pv⟩ : OvflPage) →
      ¬ (r ≤ (v.pageSize : Int) - g ∧ next ≠ 0) → 
      PageOK (v.pageSize - 4) r pg := by
    intro pg hpg hlast
    subst hpg
    refine ⟨by omega, ?_, ?_⟩
    · intro hle
      have hle' : r ≤ (v.pageSize : Int) - g := by omega
      simp only [hle', if_true]
      simp only [hle', true_and, ne_eq, Decidable.not_not] at hlast
      exact ⟨hlast, by congr 1; omega⟩
    · intro hlt
      have hle' : ¬ r ≤ (v.pageSize : Int) - g := by omega
      simp only [hle', if_false]
      omega
  by_cases hlast : (r ≤ (v.pageSize : Int) - g ∧ next ≠ 0)
  · rw [if_pos hlast] at h; cases h
  rw [if_neg hlast] at h
  exact key _ (Except.ok.inj h).symm hlast

/-- chain invariant: `cur` was parsed with `r` bytes remaining, `rest` are the following pages -/
def ChainOK (k : Nat) : Int → OvflPage → List OvflPage → Prop
  | r, cur, [] => PageOK k r cur ∧ cur.next = 0
  | r, cur, nx :: rest => PageOK k r cur ∧ ChainOK k (r - k) nx rest

theorem loop_chainOK (v : VersionIf) (hu : 4 < v.pageSize) :
    ∀ (fuel : Nat) (cur : OvflPage) (r : Int) (acc ch : List OvflPage),
      overflowChainLoop v fuel cur r acc = .ok ch → PageOK (v.pageSize - 4) r cur →
      ∃ rest, ch = acc.reverse ++ rest ∧ ChainOK (v.pageSize - 4) r cur rest := by
  intro fuel
  induction fuel with
  | zero => intro cur r acc ch h; unfold overflowChainLoop at h; cases h
  | succ fuel ih =>
    intro cur r acc ch h hc
    unfold overflowChainLoop at h
    by_cases hn : cur.next = 0
    · rw [if_pos hn] at h
      refine ⟨[], ?_, hc, hn⟩
      rw [List.append_nil]; exact (Except.ok.inj h).symm
    · rw [if_neg hn] at h
      split at h
      · cases h
      simp only [bind, Except.bind] at h
      have hr : r - (v.pageSize : Int) + (Generated.OVERFLOW_HEADER_LENGTH : Nat) = r - ((v.pageSize - 4 : Nat) : Int) := by
        simp only [Generated.OVERFLOW_HEADER_LENGTH]; omega
      rw [hr] at h
      cases hp : parseOverflowPage v cur.next (r - ((v.pageSize - 4 : Nat) : Int)) with
      | error e => rw [hp] at h; cases h
      | ok nx =>
        rw [hp] at h
        simp only [] at h
        obtain ⟨rest, h1, h2⟩ := ih _ _ _ _ h (parseOverflowPage_ok v hu _ _ _ hp)
        refine ⟨nx :: rest, ?_, hc, h2⟩
        rw [h1, List.reverse_cons, List.append_assoc]; rfl

theorem chain_chainOK (v : VersionIf) (hu : 4 < v.pageSize) (first : Nat) (ov : Int) (ch : List OvflPage)
    (h : parseOverflowChain v first ov = .ok ch) :
    ∃ cur rest, ch = cur :: rest ∧ ChainOK (v.pageSize - 4) ov cur rest := by
  unfold parseOverflowChain at h
  simp only [bind, Except.bind] at h
  cases hp : parseOverflowPage v first ov with
  | error e => rw [hp] at h; cases h
  | ok p0 =>
    rw [hp] at h
    simp only [] at h
    obtain ⟨rest, h1, h2⟩ := loop_chainOK v hu _ _ _ _ _ h (parseOverflowPage_ok v hu _ _ _ hp)
    exact ⟨p0, rest, h1, h2⟩

theorem ChainOK.head {k : Nat} {r : Int} {cur : OvflPage} {rest : List OvflPage}
    (h : ChainOK k r cur rest) : PageOK k r cur := by
  cases rest with
  | nil => exact h.1
  | cons nx rest => exact h.1

theorem chainOK_length (k : Nat) : ∀ (rest : List OvflPage) (r : Nat) (cur : OvflPage),
    ChainOK k (r : Int) cur rest → rest.length * k < r := by
  intro rest
  induction rest with
  | nil =>
    intro r cur h
    have := h.head.1
    simp only [List.length_nil, Nat.zero_mul]; omega
  | cons nx rest ih =>
    intro r cur h
    have h2 : ChainOK k ((r : Int) - k) nx rest := h.2
    have h3 := h2.head.1
    have e : (r : Int) - k = ((r - k : Nat) : Int) := by omega
    rw [e] at h2
    have := ih _ _ h2
    simp only [List.length_cons, Nat.add_mul, Nat.one_mul]
    omega

theorem chainOK_shape (k : Nat) : ∀ (rest : List OvflPage) (r : Nat) (cur : OvflPage),
    ChainOK k (r : Int) cur rest → r ≤ (rest.length + 1) * k →
    (∀ a, (((cur :: rest).map fun p => p.contentLength).foldl (· + ·) a) = a + r) ∧
      (∀ p ∈ (cur :: rest).dropLast, p.contentLength = k) ∧
      (∀ p, (cur :: rest).getLast? = some p → p.contentLength = r - rest.length * k ∧ p.next = 0) := by
  intro rest
  induction rest with
  | nil =>
    intro r cur h hle
    simp only [List.length_nil, Nat.zero_add, Nat.one_mul] at hle
    obtain ⟨⟨h0, h1, _⟩, hn⟩ := h
    have := h1 (by omega)
    refine ⟨?_, ?_, ?_⟩
    · intro a
      simp only [List.map_cons, List.map_nil, List.foldl_cons, List.foldl_nil, this.2, Int.toNat_natCast]
    · intro p hp
      simp only [List.dropLast_singleton, List.not_mem_nil] at hp
    · intro p hp
      simp only [List.getLast?_singleton, Option.some.injEq] at hp
      subst hp
      simp only [List.length_nil, Nat.zero_mul, Nat.sub_zero, this, Int.toNat_natCast, and_self]
  | cons nx rest ih =>
    intro r cur h hle
    have h2 : ChainOK k ((r : Int) - k) nx rest := h.2
    have h3 := h2.head.1
    have e : (r : Int) - k = ((r - k : Nat) : Int) := by omega
    rw [e] at h2
    simp only [List.length_cons, Nat.add_mul, Nat.one_mul] at hle
    obtain ⟨i1, i2, i3⟩ := ih _ _ h2 (by simp only [Nat.add_mul, Nat.one_mul]; omega)
    have hc : cur.contentLength = k := h.1.2.2 (by omega)
    refine ⟨?_, ?_, ?_⟩
    · intro a
      rw [List.map_cons, List.foldl_cons, i1, hc]
      omega
    · intro p hp
      rw [List.dropLast_cons_cons] at hp
      rcases List.mem_cons.1 hp with rfl | hp
      · exact hc
      · exact i2 p hp
    · intro p hp
      rw [List.getLast?_cons_cons] at hp
      obtain ⟨j1, j2⟩ := i3 p hp
      refine ⟨?_, j2⟩
      rw [j1]
      simp only [List.length_cons, Nat.add_mul, Nat.one_mul]
      omega

theorem chain_length_le (v : VersionIf) (hu : 4 < v.pageSize) (first : Nat) (ov : Nat) (ch : List OvflPage)
    (h : parseOverflowChain v first (ov : Int) = .ok ch) :
    0 < ov ∧ 1 ≤ ch.length ∧ ch.length ≤ Spec.overflowPages v.pageSize ov := by
  obtain ⟨cur, rest, rfl, hc⟩ := chain_chainOK v hu first ov _ h
  have h0 := hc.head.1
  have hl := chainOK_length _ _ _ _ hc
  refine ⟨by omega, by simp only [List.length_cons]; omega, ?_⟩
  unfold Spec.overflowPages
  rw [Nat.le_div_iff_mul_le (by omega)]
  simp only [List.length_cons, Nat.add_mul, Nat.one_mul]
  omega

theorem chain_shape (v : VersionIf) (hu : 4 < v.pageSize) (first : Nat) (ov : Nat) (ch : List OvflPage)
    (h : parseOverflowChain v first (ov : Int) = .ok ch)
    (hlen : ch.length = Spec.overflowPages v.pageSize ov) :
    ((ch.map fun p => p.contentLength).foldl (· + ·) 0) = ov ∧
      (∀ p ∈ ch.dropLast, p.contentLength = v.pageSize - 4) ∧
      (∀ p, ch.getLast? = some p → p.contentLength = Spec.lastOverflowFill v.pageSize ov ∧ p.next = 0) := by
  obtain ⟨cur, rest, rfl, hc⟩ := chain_chainOK v hu first ov _ h
  have h0 := hc.head.1
  obtain ⟨c1, c2, c3⟩ := ceil_props (v.pageSize - 4) ov (by omega) (by omega)
  unfold Spec.lastOverflowFill
  unfold Spec.overflowPages at hlen ⊢
  rw [← hlen] at c3 ⊢
  simp only [List.length_cons] at c3
  obtain ⟨i1, i2, i3⟩ := chainOK_shape _ _ _ _ hc c3
  refine ⟨by rw [i1, Nat.zero_add], i2, ?_⟩
  intro p hp
  simpa only [List.length_cons, Nat.add_sub_cancel] using i3 p hp

/-! ### bounded walk (C18): an accepted chain never visits a page twice -/

theorem parseOverflowPage_number (v : VersionIf) (number : Nat) (r : Int) (pg : OvflPage)
    (h : parseOverflowPage v number r = .ok pg) : pg.number = number := by
  unfold parseOverflowPage at h
  generalize Generated.OVERFLOW_HEADER_LENGTH = g at h
  simp only [bind, Except.bind, pure, Except.pure, decide_eq_true_eq] at h
  split at h
  · cases h
  split at h
  · cases h
  split at h
  · cases h
  split at h
  · cases h
  split at h
  · cases h
  split at h
  · cases h
  · cases h; rfl

theorem loop_nodup (v : VersionIf) :
    ∀ (fuel : Nat) (cur : OvflPage) (r : Int) (acc ch : List OvflPage),
      overflowChainLoop v fuel cur r acc = .ok ch → (acc.map (·.number)).Nodup →
      (ch.map (·.number)).Nodup := by
  intro fuel
  induction fuel with
  | zero => intro cur r acc ch h; unfold overflowChainLoop at h; cases h
  | succ fuel ih =>
    intro cur r acc ch h hnd
    unfold overflowChainLoop at h
    by_cases hn : cur.next = 0
    · rw [if_pos hn] at h
      cases h
      rw [List.map_reverse]
      unfold List.Nodup at hnd ⊢
      rw [List.pairwise_reverse]
      exact hnd.imp (fun h => Ne.symm h)
    · rw [if_neg hn] at h
      split at h
      · cases h
      rename_i hany
      simp only [bind, Except.bind] at h
      split at h
      · cases h
      rename_i nx hp
      refine ih _ _ _ _ h ?_
      rw [List.map_cons, List.nodup_cons]
      refine ⟨?_, hnd⟩
      rw [parseOverflowPage_number v _ _ _ hp]
      intro hmem
      apply hany
      obtain ⟨q, hq, hqe⟩ := List.mem_map.1 hmem
      exact List.any_eq_true.2 ⟨q, hq, by simpa using hqe⟩

/-- every accepted overflow chain visits pairwise distinct pages: the walk is bounded by the
number of pages of the database, whatever the payload size claims -/
theorem overflow_walk_no_repeat (v : VersionIf) (first : Nat) (ov : Int) (ch : List OvflPage)
    (h : parseOverflowChain v first ov = .ok ch) : (ch.map (·.number)).Nodup := by
  unfold parseOverflowChain at h
  simp only [bind, Except.bind] at h
  split at h
  · cases h
  exact loop_nodup v _ _ _ _ _ h (by simp)

theorem unpackAt_no_rec (b : Buf) (lo : Int) (n : Nat) : unpackAt b lo n ≠ .error .recursionError := by
  unfold unpackAt
  simp only []
  split <;> intro h <;> cases h

theorem parseOverflowPage_no_rec (v : VersionIf)
    (hv : ∀ p, v.pageVersion p ≠ .error .recursionError)
    (ho : ∀ p, v.pageOffset p ≠ .error .recursionError)
    (hd : ∀ p o n, v.getData p o n ≠ .error .recursionError) (number : Nat) (r : Int) :
    parseOverflowPage v number r ≠ .error .recursionError := by
  intro h
  unfold parseOverflowPage at h
  generalize Generated.OVERFLOW_HEADER_LENGTH = g at h
  simp only [bind, Except.bind, pure, Except.pure, decide_eq_true_eq] at h
  split at h
  · rename_i heq; cases h; exact hv _ heq
  split at h
  · rename_i heq; cases h; exact ho _ heq
  split at h
  · cases h
  split at h
  · rename_i heq; cases h; exact hd _ _ _ heq
  split at h
  · rename_i heq; cases h; exact unpackAt_no_rec _ _ _ heq
  rename_i next _
  by_cases hlast : (r ≤ (v.pageSize : Int) - g ∧ next ≠ 0)
  · rw [if_pos hlast] at h; cases h
  rw [if_neg hlast] at h
  cases h

theorem loop_no_rec (v : VersionIf) (hu : 4 < v.pageSize)
    (hv : ∀ p, v.pageVersion p ≠ .error .recursionError)
    (ho : ∀ p, v.pageOffset p ≠ .error .recursionError)
    (hd : ∀ p o n, v.getData p o n ≠ .error .recursionError) :
    ∀ (fuel : Nat) (cur : OvflPage) (r : Int) (acc : List OvflPage),
      0 < r → r ≤ (fuel : Int) * ((v.pageSize - 4 : Nat) : Int) →
      overflowChainLoop v fuel cur r acc ≠ .error .recursionError := by
  intro fuel
  induction fuel with
  | zero => intro cur r acc h0 h1; simp only [Int.natCast_zero, Int.zero_mul] at h1; omega
  | succ fuel ih =>
    intro cur r acc h0 h1 h
    unfold overflowChainLoop at h
    by_cases hn : cur.next = 0
    · rw [if_pos hn] at h; cases h
    · rw [if_neg hn] at h
      split at h
      · cases h
      simp only [bind, Except.bind] at h
      have hr : r - (v.pageSize : Int) + (Generated.OVERFLOW_HEADER_LENGTH : Nat) = r - ((v.pageSize - 4 : Nat) : Int) := by
        simp only [Generated.OVERFLOW_HEADER_LENGTH]; omega
      rw [hr] at h
      cases hp : parseOverflowPage v cur.next (r - ((v.pageSize - 4 : Nat) : Int)) with
      | error e =>
        rw [hp] at h; cases h
        exact parseOverflowPage_no_rec v hv ho hd _ _ hp
      | ok nx =>
        rw [hp] at h
        simp only [] at h
        have := (parseOverflowPage_ok v hu _ _ _ hp).1
        refine ih _ _ _ this ?_ h
        rw [Int.natCast_add, Int.add_mul] at h1
        omega

theorem chain_fuel_adequate (v : VersionIf) (hu : 4 < v.pageSize) (first : Nat) (ov : Int)
    (hv : ∀ p, v.pageVersion p ≠ .error .recursionError)
    (ho : ∀ p, v.pageOffset p ≠ .error .recursionError)
    (hd : ∀ p o n, v.getData p o n ≠ .error .recursionError) :
    parseOverflowChain v first ov ≠ .error .recursionError := by
  intro h
  unfold parseOverflowChain at h
  simp only [bind, Except.bind] at h
  cases hp : parseOverflowPage v first ov with
  | error e => rw [hp] at h; cases h; exact parseOverflowPage_no_rec v hv ho hd _ _ hp
  | ok p0 =>
    rw [hp] at h
    simp only [] at h
    have h0 := (parseOverflowPage_ok v hu _ _ _ hp).1
    refine loop_no_rec v hu hv ho hd _ _ _ _ h0 ?_ h
    simp only [Generated.OVERFLOW_HEADER_LENGTH]
    obtain ⟨n, rfl⟩ : ∃ n : Nat, ov = n := ⟨ov.toNat, by omega⟩
    simp only [Int.toNat_natCast]
    rw [← Int.natCast_mul]
    have := Nat.lt_mul_div_succ n (show 0 < v.pageSize - 4 by omega)
    have e : (n / (v.pageSize - 4) + 2) * (v.pageSize - 4) = (v.pageSize - 4) * (n / (v.pageSize - 4) + 1) + (v.pageSize - 4) := by
      rw [Nat.add_mul, Nat.mul_add, Nat.mul_comm (v.pageSize - 4) (n / (v.pageSize - 4))]; omega
    rw [e]
    omega

end SqliteDissect.Proofs.CellArith
