/-
C08 after the repair: carving completes.  Every candidate the two generated patterns report is a
sequence of varint-shaped tokens inside the data, on which `CarvedRecord.__init__` can only fail
with the two exception classes the carver absorbs (or leave the modelled fragment).
-/
import SqliteDissect.Proofs.CarveRecall

namespace SqliteDissect.Proofs.CarveCompletes
open SqliteDissect SqliteDissect.Model SqliteDissect.Model.Carve
open SqliteDissect.Proofs.Codec SqliteDissect.Proofs.Record SqliteDissect.Proofs.CarveRecall

/-! ### `decode_varint` stops inside the data -/

/-- the loop returns (with the number of bytes read) when the first byte without the high bit, or
the ninth byte, is inside the data -/
theorem dvLoop_stop (b : Buf) (off : Nat) : ∀ (n v rel j : Nat), j < n → off + rel + j < b.size →
    (∀ i, i < j → b.rd (off + rel + i) &&& 0x80 ≠ 0) →
    (j + 1 = n ∨ b.rd (off + rel + j) &&& 0x80 = 0) →
    ∃ v', dvLoop b off n v rel = .ok (v', rel + j + 1) := by
  intro n
  induction n with
  | zero => intro v rel j hj; omega
  | succ m ih =>
    intro v rel j hj hsz hhi hlast
    have hlt : off + rel < b.size := by omega
    unfold dvLoop
    simp only [hlt, if_true]
    cases j with
    | zero =>
      by_cases hm : m = 0
      · simp only [hm, if_true]; exact ⟨_, rfl⟩
      · have hz : b.rd (off + rel) &&& 0x80 = 0 := by
          rcases hlast with h | h
          · omega
          · simpa using h
        simp only [hm, if_false, hz, if_true]; exact ⟨_, rfl⟩
    | succ j' =>
      have hm : ¬ m = 0 := by omega
      have hnz : ¬ (b.rd (off + rel) &&& 0x80 = 0) := by simpa using hhi 0 (by omega)
      simp only [hm, if_false, hnz]
      obtain ⟨v', hv'⟩ := ih ((v ||| b.rd (off + rel) &&& 0x7F) <<< 7) (rel + 1) j' (by omega) (by omega)
        (fun i hi => by
          have := hhi (i + 1) (by omega)
          rwa [show off + rel + (i + 1) = off + (rel + 1) + i by omega] at this)
        (by
          rcases hlast with h | h
          · left; omega
          · right; rwa [show off + rel + (j' + 1) = off + (rel + 1) + j' by omega] at h)
      refine ⟨v', ?_⟩
      rw [hv', show rel + 1 + j' + 1 = rel + (j' + 1) + 1 by omega]

/-- the loop returns when some byte without the high bit, or the ninth byte, is inside the data -/
theorem dvLoop_ok (b : Buf) (off : Nat) : ∀ (n v rel j : Nat), j < n → off + rel + j < b.size →
    (j + 1 = n ∨ b.rd (off + rel + j) &&& 0x80 = 0) → ∃ r, dvLoop b off n v rel = .ok r := by
  intro n
  induction n with
  | zero => intro v rel j hj; omega
  | succ m ih =>
    intro v rel j hj hsz hlast
    have hlt : off + rel < b.size := by omega
    unfold dvLoop
    simp only [hlt, if_true]
    by_cases hm : m = 0
    · simp only [hm, if_true]; exact ⟨_, rfl⟩
    · simp only [hm, if_false]
      by_cases hz : b.rd (off + rel) &&& 0x80 = 0
      · simp only [hz, if_true]; exact ⟨_, rfl⟩
      · simp only [hz, if_false]
        cases j with
        | zero =>
          rcases hlast with h | h
          · omega
          · exact absurd (by simpa using h) hz
        | succ j' =>
          exact ih _ (rel + 1) j' (by omega) (by omega) (by
            rcases hlast with h | h
            · left; omega
            · right; rwa [show off + rel + (j' + 1) = off + (rel + 1) + j' by omega] at h)

theorem decodeVarint_of_dvLoop (b : Buf) (off u n : Nat) (h : dvLoop b off 9 0 0 = .ok (u, n)) :
    ∃ st, decodeVarint b off = .ok (st, n) := by
  unfold decodeVarint
  rw [h]
  simp only
  split <;> exact ⟨_, rfl⟩

/-! ### tokens at a position of the data -/

/-- the bytes `t` stand at offset `cur` -/
def AtPos (b : Buf) (cur : Nat) (t : List Nat) : Prop :=
  ∃ p q, b.toList = p ++ t ++ q ∧ p.length = cur

theorem atPos_rd (b : Buf) (cur : Nat) (t : List Nat) (h : AtPos b cur t) (j : Nat) (hj : j < t.length) :
    cur + j < b.size ∧ b.rd (cur + j) = t[j] := by
  obtain ⟨p, q, htot, rfl⟩ := h
  have hlen : p.length + j < (p ++ t ++ q).length := by simp only [List.length_append]; omega
  obtain ⟨a, e⟩ := rd_of_toList b _ htot (p.length + j) hlen
  refine ⟨a, ?_⟩
  rw [e]
  simp only [List.append_assoc, List.getElem_append_right (Nat.le_add_right p.length j),
    Nat.add_sub_cancel_left, List.getElem_append_left hj]

theorem atPos_le (b : Buf) (cur : Nat) (t : List Nat) (h : AtPos b cur t) : cur + t.length ≤ b.size := by
  obtain ⟨p, q, htot, rfl⟩ := h
  rw [← toList_length, htot]
  simp only [List.length_append]
  omega

theorem atPos_split (b : Buf) (cur : Nat) (t r : List Nat) (h : AtPos b cur (t ++ r)) :
    AtPos b cur t ∧ AtPos b (cur + t.length) r := by
  obtain ⟨p, q, htot, rfl⟩ := h
  exact ⟨⟨p, r ++ q, by rw [htot]; simp only [List.append_assoc], rfl⟩,
    ⟨p ++ t, q, by rw [htot]; simp only [List.append_assoc], by rw [List.length_append]⟩⟩

theorem atPos_of_drop (b : Buf) (cur : Nat) (t r : List Nat) (hc : cur ≤ b.size)
    (h : b.toList.drop cur = t ++ r) : AtPos b cur t := by
  refine ⟨b.toList.take cur, r, ?_, ?_⟩
  · rw [List.append_assoc, ← h, List.take_append_drop]
  · rw [List.length_take, toList_length]; omega

theorem token_len (t : List Nat) (h : Token t) : 1 ≤ t.length ∧ t.length ≤ 8 := by
  obtain ⟨cb, last, rfl, h1, _, _⟩ := h
  simp only [List.length_append, List.length_singleton]
  omega

theorem hibit_set (x : Nat) (h1 : 0x80 ≤ x) (h2 : x ≤ 0xFF) : x &&& 0x80 ≠ 0 := by
  intro h
  have := (Proofs.Bits.and_80_eq_zero x (by omega)).1 h
  omega

theorem hibit_clear (x : Nat) (h : x < 0x80) : x &&& 0x80 = 0 :=
  (Proofs.Bits.and_80_eq_zero x (by omega)).2 h

/-- on a token `decode_varint` reads exactly the token -/
theorem token_decode (b : Buf) (cur : Nat) (t : List Nat) (ht : Token t) (h : AtPos b cur t) :
    ∃ st, decodeVarint b cur = .ok (st, t.length) := by
  obtain ⟨cb, last, rfl, h1, h2, h3⟩ := ht
  have hlen : (cb ++ [last]).length = cb.length + 1 := by simp
  obtain ⟨v', hv'⟩ := dvLoop_stop b cur 9 0 0 cb.length (by omega)
    (by have := atPos_le b cur _ h; rw [hlen] at this; omega)
    (fun i hi => by
      obtain ⟨_, e⟩ := atPos_rd b cur _ h i (by rw [hlen]; omega)
      rw [Nat.add_zero, e, List.getElem_append_left hi]
      have := h2 _ (List.getElem_mem hi)
      exact hibit_set _ this.1 this.2)
    (by
      right
      obtain ⟨_, e⟩ := atPos_rd b cur _ h cb.length (by rw [hlen]; omega)
      rw [Nat.add_zero, e, List.getElem_append_right (Nat.le_refl _)]
      simp only [Nat.sub_self, List.getElem_cons_zero]
      exact hibit_clear _ h3)
  rw [Nat.zero_add] at hv'
  rw [hlen]
  exact decodeVarint_of_dvLoop b cur v' _ hv'

/-- a byte without the high bit is a whole varint: `decode_varint` reads exactly it (what is left of
`decode_varint(data, at)` once the guard in front of it has passed) -/
theorem decodeVarint_single (b : Buf) (at_ : Nat) (hlt : at_ < b.size) (hz : b.rd at_ &&& 0x80 = 0) :
    ∃ v, decodeVarint b at_ = .ok (v, 1) := by
  obtain ⟨v', hv'⟩ := dvLoop_stop b at_ 9 0 0 0 (by omega) (by omega) (fun i hi => by omega) (Or.inr hz)
  exact decodeVarint_of_dvLoop b at_ v' _ hv'

/-! ### token sequences -/

/-- the concatenation of `n` tokens -/
def TokSeq : Nat → List Nat → Prop
  | 0, l => l = []
  | n + 1, l => ∃ t r, l = t ++ r ∧ Token t ∧ TokSeq n r

/-- `k` tokens stand in the data from `cur` and end exactly at `e` -/
def TokAt (b : Buf) : Nat → Nat → Nat → Prop
  | 0, cur, e => cur = e ∧ e ≤ b.size
  | k + 1, cur, e => ∃ t, Token t ∧ AtPos b cur t ∧ TokAt b k (cur + t.length) e

theorem tokAt_of_seq (b : Buf) : ∀ (k cur : Nat) (t : List Nat), TokSeq k t → AtPos b cur t →
    TokAt b k cur (cur + t.length) := by
  intro k
  induction k with
  | zero =>
    intro cur t ht h
    have hle := atPos_le b cur t h
    simp only [TokSeq] at ht
    subst ht
    exact ⟨rfl, hle⟩
  | succ k ih =>
    intro cur t ht h
    obtain ⟨t1, r, rfl, htok, hr⟩ := ht
    obtain ⟨ha, hb⟩ := atPos_split b cur t1 r h
    refine ⟨t1, htok, ha, ?_⟩
    have := ih (cur + t1.length) r hr hb
    rwa [List.length_append, ← Nat.add_assoc]

theorem tokAt_le (b : Buf) : ∀ (k cur e : Nat), TokAt b k cur e → cur ≤ e ∧ e ≤ b.size := by
  intro k
  induction k with
  | zero => intro cur e h; obtain ⟨rfl, h2⟩ := h; exact ⟨Nat.le_refl _, h2⟩
  | succ k ih =>
    intro cur e h
    obtain ⟨t, _, _, hr⟩ := h
    have := ih _ _ hr
    omega

section Scan
open SqliteDissect.Model.Regex

theorem mseq_tokseq : ∀ (cols : List (List Int)) (ps : List Pat), genColumns cols = .ok ps →
    ∀ (subject out : List Nat), mseq ps subject some = some out →
      ∃ t, subject = t ++ out ∧ TokSeq cols.length t := by
  intro cols
  induction cols with
  | nil =>
    intro ps hg subject out h
    simp only [genColumns, Except.ok.injEq] at hg
    subst hg
    simp only [mseq, Option.some.injEq] at h
    exact ⟨[], by rw [h]; rfl, rfl⟩
  | cons c cs ih =>
    intro ps hg subject out h
    unfold genColumns at hg
    cases hc : genColumn c with
    | error e => rw [hc] at hg; cases hg
    | ok p =>
      rw [hc] at hg
      simp only at hg
      cases hcs : genColumns cs with
      | error e => rw [hcs] at hg; cases hg
      | ok ps' =>
        rw [hcs] at hg
        simp only [Except.ok.injEq] at hg
        subst hg
        simp only [mseq] at h
        obtain ⟨tok, rest', e, htok, hk⟩ := genColumn_consumes c p hc _ _ out h
        obtain ⟨t', e', ht'⟩ := ih ps' hcs rest' out hk
        exact ⟨tok ++ t', by rw [e, e', List.append_assoc], tok, t', rfl, htok, ht'⟩

/-- what a generated pattern matches at the front of a subject: as many tokens as it has columns -/
theorem matchAt_tokseq (sig : List (List Int)) (skip : Bool) (p : Pat) (hp : genSignature sig skip = .ok p)
    (subject out : List Nat) (h : matchAt p subject = some out) :
    ∃ t, subject = t ++ out ∧ TokSeq (if skip then sig.drop 1 else sig).length t := by
  unfold genSignature at hp
  cases hg : genColumns (if skip then sig.drop 1 else sig) with
  | error e => rw [hg] at hp; cases hp
  | ok ps =>
    rw [hg] at hp
    simp only [Except.ok.injEq] at hp
    subst hp
    simp only [matchAt, m] at h
    exact mseq_tokseq _ ps hg subject out h

theorem finditerAux_tok (p : Pat) (n : Nat)
    (hp : ∀ s out, matchAt p s = some out → ∃ t, s = t ++ out ∧ TokSeq n t) :
    ∀ (fuel : Nat) (sfx : List Nat) (pos : Nat), ∀ se ∈ finditerAux p fuel sfx pos,
      ∃ k t r, k ≤ sfx.length ∧ se.1 = pos + k ∧ sfx.drop k = t ++ r ∧ TokSeq n t ∧ se.2 = se.1 + t.length := by
  intro fuel
  induction fuel with
  | zero => intro s pos se h; simp [finditerAux] at h
  | succ f ih =>
    intro s pos se h
    unfold finditerAux at h
    have htail : ∀ se ∈ (match s with
          | [] => []
          | _ :: t => finditerAux p f t (pos + 1)),
        ∃ k t r, k ≤ s.length ∧ se.1 = pos + k ∧ s.drop k = t ++ r ∧ TokSeq n t ∧ se.2 = se.1 + t.length := by
      intro se hse
      cases s with
      | nil => cases hse
      | cons c t =>
        obtain ⟨k, t', r, h1, h2, h3, h4, h5⟩ := ih t (pos + 1) se hse
        exact ⟨k + 1, t', r, by simp only [List.length_cons]; omega, by omega,
          by simpa only [List.drop_succ_cons] using h3, h4, h5⟩
    cases hm : matchAt p s with
    | none =>
      rw [hm] at h
      exact htail se h
    | some r =>
      rw [hm] at h
      simp only at h
      obtain ⟨t, hs, ht⟩ := hp s r hm
      have hlen : s.length - r.length = t.length := by rw [hs, List.length_append]; omega
      by_cases hn : s.length - r.length = 0
      · rw [if_pos hn] at h
        rcases List.mem_cons.1 h with h | h
        · subst h
          exact ⟨0, t, r, by omega, rfl, by simpa using hs, ht, by simp only; omega⟩
        · exact htail se h
      · rw [if_neg hn] at h
        rcases List.mem_cons.1 h with h | h
        · subst h
          exact ⟨0, t, r, by omega, rfl, by simpa using hs, ht, by simp only; omega⟩
        · obtain ⟨k, t', r', h1, h2, h3, h4, h5⟩ := ih r _ se h
          refine ⟨t.length + k, t', r', ?_, by omega, ?_, h4, h5⟩
          · rw [hs, List.length_append]; omega
          · rw [hs, ← List.drop_drop, List.drop_left]; exact h3

/-- every candidate a generated pattern reports is a token sequence inside the data -/
theorem finditer_tokAt (sig : List (List Int)) (skip : Bool) (p : Pat) (hp : genSignature sig skip = .ok p)
    (data : Buf) (s e : Nat) (h : (s, e) ∈ finditer p data.toList) :
    TokAt data (if skip then sig.drop 1 else sig).length s e := by
  obtain ⟨k, t, r, h1, h2, h3, h4, h5⟩ := finditerAux_tok p _ (matchAt_tokseq sig skip p hp) _ _ 0 _ h
  simp only [Nat.zero_add] at h2 h5
  subst h2
  rw [toList_length] at h1
  have := tokAt_of_seq data _ s t h4 (atPos_of_drop data s t r h1 h3)
  rwa [← h5] at this

end Scan

/-! ### content sizes, columns -/

theorem getContentSize_err (st : Int) (e : PyErr) (h : getContentSize st = .error e) : e = .valueError := by
  rw [content_size_eq_spec] at h
  split at h
  · cases h
  · simp only [Except.error.injEq] at h; exact h.symm

theorem contentSize_cases (st : Int) :
    contentSize st = .error (.py .valueError) ∨ contentSize st = .error (.py .outsideModel) ∨
      ∃ sz, contentSize st = .ok sz ∧ getContentSize st = .ok sz ∧ sz < 2 ^ 53 := by
  unfold contentSize
  cases h : getContentSize st with
  | error e =>
    left
    rw [getContentSize_err st e h]
  | ok sz =>
    simp only
    by_cases hs : sz ≥ floatExact
    · right; left; rw [if_pos hs]
    · right; right
      rw [if_neg hs]
      exact ⟨sz, rfl, rfl, by simp only [floatExact] at hs; omega⟩

/-- the recorded content size is the one the serial type asks for -/
def GoodCol (c : PreCol) : Prop := getContentSize c.serialType = .ok c.contentSize

theorem slice_WF (b : Buf) (hb : b.WF) (lo hi : Nat) : (b.slice lo hi).WF := by
  intro i hi'
  simp only [Buf.slice] at hi' ⊢
  apply hb
  omega

theorem slice_size (b : Buf) (lo hi : Nat) (h1 : lo ≤ hi) (h2 : hi ≤ b.size) : (b.slice lo hi).size = hi - lo := by
  simp only [Buf.slice]
  omega

/-- `get_record_content` over a slice of exactly the width of the serial type succeeds -/
theorem decodeCols_ok (data : Buf) (hwf : data.WF) : ∀ (cols : List PreCol) (idx off : Nat),
    (∀ c ∈ cols, GoodCol c) → ∃ r, decodeCols data cols idx off = .ok r := by
  intro cols
  induction cols with
  | nil => intro idx off _; exact ⟨_, rfl⟩
  | cons c rest ih =>
    intro idx off hg
    obtain ⟨r, hr⟩ := ih (idx + 1) (off + c.contentSize) (fun x hx => hg x (List.mem_cons_of_mem _ hx))
    have hc : GoodCol c := hg c (List.mem_cons_self ..)
    unfold decodeCols
    by_cases hfit : off + c.contentSize > data.size
    · simp only [hfit, if_true, hr, bind, Except.bind, pure, Except.pure]
      exact ⟨_, rfl⟩
    · have hstl : Spec.serialTypeLen c.serialType = some c.contentSize := by
        unfold GoodCol at hc
        rw [content_size_eq_spec] at hc
        split at hc
        · rename_i n hn
          simp only [Except.ok.injEq] at hc
          rw [hn, hc]
        · cases hc
      have hsz := slice_size data off (off + c.contentSize) (by omega) (by omega)
      have hrc := record_content_eq_spec c.serialType (data.slice off (off + c.contentSize))
        (slice_WF data hwf _ _) 0 c.contentSize hstl (by omega)
      obtain ⟨v, hv⟩ := spec_serialGet_defined c.serialType c.contentSize
        (((data.slice off (off + c.contentSize)).toList.drop 0).take c.contentSize) hstl
        (by rw [content_length _ 0 _ (by omega)])
      rw [hv] at hrc
      simp only [hfit, if_false, hrc, liftPy, bind, Except.bind, ne_eq, not_true_eq_false, hr, pure,
        Except.pure]
      exact ⟨_, rfl⟩

/-! ### the header walk and the body size over a token sequence -/

theorem headerWalk_tok (data : Buf) (e nCols : Nat) : ∀ (k cur fuel n : Nat), TokAt data k cur e →
    e - cur ≤ fuel → n + k ≤ nCols →
    headerWalk data e nCols fuel cur n = .error (.py .valueError) ∨
    headerWalk data e nCols fuel cur n = .error (.py .outsideModel) ∨
    ∃ cols, headerWalk data e nCols fuel cur n = .ok cols ∧ cols.length = k ∧ ∀ c ∈ cols, GoodCol c := by
  intro k
  induction k with
  | zero =>
    intro cur fuel n h _ _
    obtain ⟨rfl, _⟩ := h
    right; right
    refine ⟨[], ?_, rfl, by intro c hc; cases hc⟩
    cases fuel <;> simp [headerWalk]
  | succ k ih =>
    intro cur fuel n h hfuel hn
    obtain ⟨t, htok, hat, hrest⟩ := h
    obtain ⟨hl1, _⟩ := token_len t htok
    obtain ⟨hle, _⟩ := tokAt_le data _ _ _ hrest
    obtain ⟨f, rfl⟩ : ∃ f, fuel = f + 1 := ⟨fuel - 1, by omega⟩
    obtain ⟨st, hdec⟩ := token_decode data cur t htok hat
    have hlt : cur < e := by omega
    have hgt : ¬ (cur + t.length > e) := by omega
    have hge : ¬ (n ≥ nCols) := by omega
    rw [headerWalk]
    simp only [hlt, if_true, hdec, liftPy, bind, Except.bind, hgt, hge, if_false]
    rcases contentSize_cases st with hcs | hcs | ⟨sz, hcs, hg, _⟩
    · left; rw [hcs]
    · right; left; rw [hcs]
    · rw [hcs]
      simp only
      rcases ih (cur + t.length) f (n + 1) hrest (by omega) (by omega) with hw | hw | ⟨cols, hw, hlen, hgood⟩
      · left; rw [hw]
      · right; left; rw [hw]
      · right; right
        rw [hw]
        refine ⟨_, rfl, by simp only [List.length_cons, hlen], ?_⟩
        intro c hc
        rcases List.mem_cons.1 hc with rfl | hc
        · exact hg
        · exact hgood c hc

theorem cbcsLoop_tok (hdr : Buf) : ∀ (k start fuel acc : Nat), TokAt hdr k start hdr.size →
    hdr.size - start ≤ fuel →
    (∃ r, cbcsLoop hdr fuel start acc = .ok r) ∨ cbcsLoop hdr fuel start acc = .error .valueError := by
  intro k
  induction k with
  | zero =>
    intro start fuel acc h _
    obtain ⟨rfl, _⟩ := h
    left
    cases fuel <;> exact ⟨acc, by simp [cbcsLoop]⟩
  | succ k ih =>
    intro start fuel acc h hfuel
    obtain ⟨t, htok, hat, hrest⟩ := h
    obtain ⟨hl1, _⟩ := token_len t htok
    obtain ⟨hle, _⟩ := tokAt_le hdr _ _ _ hrest
    obtain ⟨f, rfl⟩ : ∃ f, fuel = f + 1 := ⟨fuel - 1, by omega⟩
    obtain ⟨st, hdec⟩ := token_decode hdr start t htok hat
    have hlt : start < hdr.size := by omega
    have hgt : ¬ (start + t.length > hdr.size) := by omega
    rw [cbcsLoop]
    simp only [hlt, if_true, hdec]
    cases hg : getContentSize st with
    | error e => right; rw [getContentSize_err st e hg]
    | ok sz =>
      simp only [hgt, if_false]
      exact ih _ f _ hrest (by omega)

/-- the token sequence `[s, e)` of the data is the whole of the slice `data[s:e]` -/
theorem tokAt_slice (data : Buf) : ∀ (k cur e s : Nat), TokAt data k cur e → s ≤ cur →
    TokAt (data.slice s e) k (cur - s) (data.slice s e).size := by
  intro k
  induction k with
  | zero =>
    intro cur e s h hs
    obtain ⟨rfl, h2⟩ := h
    have := slice_size data s cur hs h2
    exact ⟨this.symm, Nat.le_refl _⟩
  | succ k ih =>
    intro cur e s h hs
    obtain ⟨t, htok, hat, hrest⟩ := h
    obtain ⟨hle, he⟩ := tokAt_le data _ _ _ hrest
    refine ⟨t, htok, ?_, ?_⟩
    · obtain ⟨p, q, htot, hp⟩ := hat
      have hsl := slice_toList' data s e (by omega) he
      refine ⟨p.drop s, q.take (e - (cur + t.length)), ?_, by rw [List.length_drop]; omega⟩
      rw [hsl, htot]
      have hdsz : data.size = p.length + t.length + q.length := by
        rw [← toList_length, htot]; simp only [List.length_append]
      simp only [List.append_assoc, List.drop_append, List.take_append, List.length_drop]
      rw [List.take_of_length_le (l := p.drop s) (by rw [List.length_drop]; omega),
        show s - p.length = 0 by omega, Nat.zero_sub, List.drop_zero, List.drop_zero,
        List.take_of_length_le (l := t) (by omega)]
      congr 3
      omega
    · have := ih (cur + t.length) e s hrest (by omega)
      rwa [show cur + t.length - s = cur - s + t.length by omega] at this

theorem calcBody_tok (data : Buf) (k s e : Nat) (h : TokAt data k s e) :
    (∃ r, calcBodyContentSize (data.slice s e) = .ok r) ∨
      calcBodyContentSize (data.slice s e) = .error .valueError := by
  have := tokAt_slice data k s e s h (Nat.le_refl _)
  rw [Nat.sub_self] at this
  unfold calcBodyContentSize
  exact cbcsLoop_tok _ k 0 _ 0 this (by omega)

/-! ### the first column -/

/-- the exceptions of `CarvedRecord.__init__` that the carver absorbs, and the model's own -/
def Absorbed (e : CErr) : Prop := e = .cellCarving ∨ e = .py .valueError ∨ e = .py .outsideModel

theorem absorbed_cc : Absorbed .cellCarving := Or.inl rfl
theorem absorbed_ve : Absorbed (.py .valueError) := Or.inr (Or.inl rfl)
theorem absorbed_om : Absorbed (.py .outsideModel) := Or.inr (Or.inr rfl)

/-- errors are in `P`, results satisfy `Q` -/
def Res {α : Type} (P : CErr → Prop) (Q : α → Prop) : CM α → Prop
  | .ok a => Q a
  | .error e => P e

theorem Res.mono {α : Type} {P P' : CErr → Prop} {Q : α → Prop} (h : ∀ e, P e → P' e) :
    ∀ (r : CM α), Res P Q r → Res P' Q r
  | .ok _, hr => hr
  | .error e, hr => h e hr

theorem Res.ite {α : Type} {P : CErr → Prop} {Q : α → Prop} {c : Prop} [Decidable c] {x y : CM α}
    (hx : Res P Q x) (hy : Res P Q y) : Res P Q (if c then x else y) := by
  split
  · exact hx
  · exact hy

theorem Res.bind {α β : Type} {P : CErr → Prop} {Q : α → Prop} {R : β → Prop} {x : CM α} {f : α → CM β}
    (hx : Res P Q x) (hf : ∀ a, Q a → Res P R (f a)) : Res P R (x >>= f) := by
  cases x with
  | error e => exact hx
  | ok a => exact hf a hx

/-- a reconstructed first column carries the content size of its serial type -/
def GoodOpt (o : Option PreCol) : Prop := ∀ c, o = some c → GoodCol c

theorem goodOpt_none : GoodOpt none := fun _ h => by cases h

theorem contentSize_res (st : Int) :
    Res Absorbed (fun sz => getContentSize st = .ok sz ∧ sz < 2 ^ 53) (contentSize st) := by
  rcases contentSize_cases st with hcs | hcs | ⟨sz, hcs, hg, hlt⟩
  · rw [hcs]; exact absorbed_ve
  · rw [hcs]; exact absorbed_om
  · rw [hcs]; exact ⟨hg, hlt⟩

theorem matchingTypes_props (x : Int) : ∀ (fc : List Int),
    Res Absorbed (fun ms => ∀ st ∈ ms, getContentSize st = .ok x.toNat) (matchingTypes x fc) := by
  intro fc
  induction fc with
  | nil => intro st hst; cases hst
  | cons t rest ih =>
    unfold matchingTypes
    simp only [bind, Except.bind, pure, Except.pure]
    rcases contentSize_cases t with hcs | hcs | ⟨sz, hcs, hg, _⟩
    · rw [hcs]; exact absorbed_ve
    · rw [hcs]; exact absorbed_om
    · rw [hcs]
      simp only
      cases hr : matchingTypes x rest with
      | error e' => rw [hr] at ih; exact ih
      | ok r =>
        rw [hr] at ih
        intro st hst
        split at hst
        · rename_i hcond
          rcases List.mem_cons.1 hst with rfl | hst
          · rcases hcond with hc | hc | hc
            · rw [hg, ← hc, Int.toNat_natCast]
            · rw [hc] at hg; cases hg
            · rw [hc] at hg; cases hg
          · exact ih st hst
        · exact ih st hst

theorem fromFreeblockSize_props (fc : List Int) (fb : Int) (sdSize sdcs : Nat) :
    Res Absorbed GoodOpt (fromFreeblockSize fc fb sdSize sdcs) := by
  unfold fromFreeblockSize
  simp only [bind, Except.bind, pure, Except.pure]
  generalize (fb - 2 - (1 + (sdSize : Int) + 1) - (sdcs : Int)) = x
  have h := matchingTypes_props x fc
  cases hm : matchingTypes x fc with
  | error e' => rw [hm] at h; exact h
  | ok ms =>
    rw [hm] at h
    simp only
    split
    · rename_i st
      intro c hc
      simp only [Option.some.injEq] at hc
      subst hc
      exact h st (List.mem_cons_self ..)
    · exact goodOpt_none

/-- the guard in front of `decode_varint`: inside the data it passes on a byte without the high bit and
rejects the candidate otherwise -/
theorem precedingByteGuard_cases (data : Buf) (at_ : Nat) (hlt : at_ < data.size) :
    (precedingByteGuard data at_ = .ok () ∧ data.rd at_ &&& 0x80 = 0) ∨
      precedingByteGuard data at_ = .error .cellCarving := by
  unfold precedingByteGuard
  rw [if_pos hlt]
  by_cases hz : data.rd at_ &&& 0x80 = 0
  · left; exact ⟨by simp only [hz, ne_eq, not_true_eq_false, if_false], hz⟩
  · right; simp only [ne_eq, hz, not_false_eq_true, if_true]

theorem fromPrecedingByte_props (P : CErr → Prop) (hP : ∀ e, Absorbed e → P e) (fc : List Int) (data : Buf)
    (at_ : Nat) (hlt : at_ < data.size) : Res P GoodOpt (fromPrecedingByte fc data at_) := by
  unfold fromPrecedingByte
  simp only [bind, Except.bind, pure, Except.pure]
  rcases precedingByteGuard_cases data at_ hlt with ⟨hg, hz⟩ | hg
  · obtain ⟨st, hdv⟩ := decodeVarint_single data at_ hlt hz
    rw [hg, hdv]
    simp only [liftPy, ne_eq, not_true_eq_false, if_false]
    split
    · rcases contentSize_cases st with hcs | hcs | ⟨sz, hcs, hg, _⟩
      · rw [hcs]; exact hP _ absorbed_ve
      · rw [hcs]; exact hP _ absorbed_om
      · rw [hcs]
        intro c hc
        simp only [Option.some.injEq] at hc
        subst hc
        exact hg
    · exact goodOpt_none
  · rw [hg]
    exact hP _ absorbed_cc

theorem dvrLoop_err (b : Buf) (offset max : Nat) : ∀ (rem v : Nat) (e : PyErr),
    dvrLoop b offset max rem v = .error e → e = .parseError := by
  intro rem
  induction rem with
  | zero => intro v e h; simp [dvrLoop] at h
  | succ rem ih =>
    intro v e h
    unfold dvrLoop at h
    simp only at h
    split at h
    · simp only [Except.error.injEq] at h; exact h.symm
    · split at h
      · exact ih _ _ h
      · cases h

theorem decodeVarintRev_err (b : Buf) (offset max : Nat) (e : PyErr) (h0 : offset ≠ 0)
    (h : decodeVarintRev b offset max = .error e) : e = .valueError ∨ e = .parseError := by
  unfold decodeVarintRev at h
  split at h
  · simp only [Except.error.injEq] at h; exact Or.inl h.symm
  · exact Or.inr (dvrLoop_err _ _ _ _ _ _ h)

/-- the freeblock branches of the first column reconstruction -/
theorem reconstructFirst_fb (P : CErr → Prop) (hP : ∀ e, Absorbed e → P e) (i : RecIn) (fc : List Int) (fb : Nat)
    (hloc : i.loc = .freeblock) (hfc : i.firstCol = some fc) (hfb : i.fbSize = some fb)
    (hs : i.s ≤ i.data.size) (a b : Nat) :
    Res P GoodOpt (reconstructFirst i a b) := by
  have hpb : ∀ at_, at_ = i.s - 1 → 1 ≤ i.s → Res P GoodOpt (fromPrecedingByte fc i.data at_) := by
    intro at_ hat h1
    subst hat
    exact fromPrecedingByte_props P hP fc i.data _ (by omega)
  unfold reconstructFirst
  by_cases h0 : i.s = 0
  · simp only [h0, if_true, hloc, hfc, hfb]
    exact Res.mono hP _ (fromFreeblockSize_props _ _ _ _)
  · by_cases h1 : i.s = 1
    · simp only [h1, hloc, hfc, Nat.one_ne_zero, if_false]
      exact hpb 0 (by omega) (by omega)
    · simp only [h0, h1, if_false, hloc, hfc]
      refine Res.ite (Res.mono hP _ (fromFreeblockSize_props _ _ _ _)) (Res.ite ?_ (hpb _ rfl (by omega)))
      cases hr : decodeVarintRev i.data i.s 5 with
      | ok r => exact goodOpt_none
      | error e =>
        rcases decodeVarintRev_err _ _ _ e h0 hr with rfl | rfl
        · exact hP _ absorbed_ve
        · exact goodOpt_none

theorem probabilisticFirst_props (sig : CarveSig) (fc : List Int) (hne : fc ≠ []) :
    Res Absorbed GoodCol (probabilisticFirst sig fc) := by
  unfold probabilisticFirst
  refine Res.bind (Q := fun _ => True) ?_ (fun t0 _ => ?_)
  · cases fc with
    | nil => exact absurd rfl hne
    | cons t r => trivial
  · dsimp only
    refine Res.bind (Q := fun _ => True) ?_ (fun t2 _ => ?_)
    · refine Res.ite ?_ trivial
      split
      · trivial
      · split
        · exact absorbed_ve
        · trivial
    · exact Res.bind (contentSize_res _) (fun sz hsz => hsz.1)

/-! ### the constructor over a candidate -/

theorem carvedRecord_res (P : CErr → Prop) (hP : ∀ e, Absorbed e → P e) (i : RecIn) (k : Nat)
    (hwf : i.data.WF) (hsize : i.data.size < 2 ^ 53) (htok : TokAt i.data k i.s i.e) (hn1 : 1 ≤ i.nCols)
    (hrf : ∀ a b, Res P GoodOpt (reconstructFirst i a b))
    (hk : k + 1 ≤ i.nCols ∨ (k ≤ i.nCols ∧ i.firstCol = none ∧ ∀ a b, reconstructFirst i a b = .ok none)) :
    Res P (fun _ => True) (carvedRecord i) := by
  have hse := tokAt_le i.data k i.s i.e htok
  unfold carvedRecord
  dsimp only
  -- the body content size of the matched serial types
  refine Res.bind (Q := fun _ => True) ?_ (fun sdcs0 _ => ?_)
  · rcases calcBody_tok i.data k i.s i.e htok with ⟨r, hr⟩ | hr
    · rw [hr]; trivial
    · rw [hr]; exact hP _ absorbed_ve
  refine Res.bind (Q := fun _ => True) (Res.ite (hP _ absorbed_om) trivial) (fun sdcs _ => ?_)
  -- the first column
  refine Res.bind (Q := fun first => GoodOpt first ∧
      (k + 1 ≤ i.nCols ∨ (k ≤ i.nCols ∧ i.firstCol = none ∧ first = none))) ?_ (fun first0 h0 => ?_)
  · rcases hk with hk | ⟨hk1, hk2, hk3⟩
    · exact Res.mono (fun e he => he) _ (by
        have := hrf (i.e - i.s) sdcs
        revert this
        cases reconstructFirst i (i.e - i.s) sdcs with
        | error e => exact fun h => h
        | ok o => exact fun h => ⟨h, Or.inl hk⟩)
    · rw [hk3]
      exact ⟨goodOpt_none, Or.inr ⟨hk1, hk2, rfl⟩⟩
  rw [if_neg (fun h => by have := h.2; omega)]
  refine Res.bind (Q := fun first => first = first0) rfl (fun first1 h1 => ?_)
  subst h1
  obtain ⟨hg0, hcnt0⟩ := h0
  refine Res.bind (Q := fun first => GoodOpt first ∧ first.toList.length + k ≤ i.nCols) ?_
    (fun first h5 => ?_)
  · generalize hfc : i.firstCol = ofc
    cases first1 with
    | some c =>
      refine ⟨hg0, ?_⟩
      rcases hcnt0 with h | ⟨_, _, h⟩
      · simp only [Option.toList_some, List.length_singleton]; omega
      · cases h
    | none =>
      cases ofc with
      | none =>
        refine ⟨goodOpt_none, ?_⟩
        simp only [Option.toList_none, List.length_nil]; omega
      | some fc =>
        dsimp only
        by_cases hemp : fc.isEmpty = true
        · rw [if_pos hemp]
          refine ⟨goodOpt_none, ?_⟩
          simp only [Option.toList_none, List.length_nil]; omega
        · rw [if_neg hemp]
          refine Res.bind (Res.mono hP _ (probabilisticFirst_props i.sig fc
            (by intro h; rw [h] at hemp; exact hemp rfl))) (fun c hc => ?_)
          refine ⟨fun c' hc' => by cases hc'; exact hc, ?_⟩
          rcases hcnt0 with h | ⟨_, h, _⟩
          · simp only [Option.toList_some, List.length_singleton]; omega
          · rw [hfc] at h; cases h
  obtain ⟨hg, hcnt⟩ := h5
  -- the header walk
  refine Res.bind (Q := fun walked => walked.length = k ∧ ∀ c ∈ walked, GoodCol c) ?_ (fun walked hw => ?_)
  · rcases headerWalk_tok i.data i.e i.nCols k i.s (i.e - i.s) first.toList.length htok (Nat.le_refl _)
      hcnt with h | h | ⟨cols, h, h1, h2⟩
    · rw [h]; exact hP _ absorbed_ve
    · rw [h]; exact hP _ absorbed_om
    · rw [h]; exact ⟨h1, h2⟩
  obtain ⟨hwl, hwg⟩ := hw
  have hgood : ∀ c ∈ first.toList ++ walked, GoodCol c := by
    intro c hc
    rcases List.mem_append.1 hc with hc | hc
    · exact hg c (by simpa using hc)
    · exact hwg c hc
  have hpre : first.toList.length ≤ 1 := by cases first <;> simp
  generalize hcols : first.toList ++ walked = cols at hgood ⊢
  by_cases hlen : cols.length ≠ i.nCols
  · rw [if_pos hlen]; exact hP _ absorbed_cc
  rw [if_neg hlen]
  by_cases hfl : sumSizes cols ≥ floatExact
  · rw [if_pos hfl]; exact hP _ absorbed_om
  rw [if_neg hfl]
  simp only [floatExact, ge_iff_le, Nat.not_le] at hfl
  obtain ⟨ccols, hcc⟩ := decodeCols_ok i.data hwf cols 0 i.e hgood
  rw [hcc]
  refine Res.bind (Q := fun _ => True) trivial (fun _ _ => ?_)
  rw [encode_eq_spec _ (by omega) (by omega)]
  refine Res.bind (Q := fun _ => True) trivial (fun _ _ => ?_)
  rw [encode_eq_spec _ (by omega) (by omega)]
  refine Res.bind (Q := fun _ => True) trivial (fun _ _ => ?_)
  cases cols with
  | nil => simp only [List.length_nil, ne_eq, Decidable.not_not] at hlen; omega
  | cons c0 rest => trivial

/-- an exception that leaves `tryCarve` left the constructor and is not a `ValueError` -/
theorem tryCarve_err (fo pn ix : Nat) (i : RecIn) (er : PyErr) (h : tryCarve fo pn ix i = .error er) :
    carvedRecord i = .error (.py er) ∧ er ≠ .valueError := by
  unfold tryCarve at h
  split at h
  · cases h
  · cases h
  · cases h
  · rename_i e hne hce
    simp only [Except.error.injEq] at h
    subst h
    exact ⟨hce, fun heq => hne (by rw [heq])⟩

/-- (1) a candidate completes: a cell, nothing (absorbed), or the model's own `outsideModel` -/
def CandOk (fo pn ix : Nat) (i : RecIn) : Prop :=
  (∃ r, tryCarve fo pn ix i = .ok r) ∨ tryCarve fo pn ix i = .error .outsideModel

theorem candOk_of_res (fo pn ix : Nat) (i : RecIn) (h : Res Absorbed (fun _ => True) (carvedRecord i)) :
    CandOk fo pn ix i := by
  cases ht : tryCarve fo pn ix i with
  | ok r => exact Or.inl ⟨r, ht⟩
  | error er =>
    right
    obtain ⟨h1, h2⟩ := tryCarve_err fo pn ix i er ht
    rw [h1] at h
    rcases h with h | h | h
    · cases h
    · simp only [CErr.py.injEq] at h; exact absurd h h2
    · simp only [CErr.py.injEq] at h; rw [← h]; exact ht

theorem candOk_err (fo pn ix : Nat) (i : RecIn) (h : CandOk fo pn ix i) (er : PyErr)
    (he : tryCarve fo pn ix i = .error er) : er = .outsideModel := by
  rcases h with ⟨r, hr⟩ | hr
  · rw [hr] at he; cases he
  · rw [hr] at he; simp only [Except.error.injEq] at he; exact he.symm

/-- the unallocated location: the candidates of the full pattern (no first column handed over) and
of the partial pattern (first column serial types handed over) -/
theorem candOk_unallocated (fo pn ix : Nat) (i : RecIn) (k : Nat) (hwf : i.data.WF) (hsize : i.data.size < 2 ^ 53)
    (htok : TokAt i.data k i.s i.e) (hloc : i.loc = .unallocated) (hn1 : 1 ≤ i.nCols)
    (hk : k + 1 ≤ i.nCols ∨ (k ≤ i.nCols ∧ i.firstCol = none)) : CandOk fo pn ix i := by
  apply candOk_of_res
  apply carvedRecord_res Absorbed (fun e he => he) i k hwf hsize htok hn1
  · intro a b
    rw [reconstructFirst_unalloc i hloc]
    exact goodOpt_none
  · rcases hk with hk | ⟨hk1, hk2⟩
    · exact Or.inl hk
    · exact Or.inr ⟨hk1, hk2, fun a b => reconstructFirst_unalloc i hloc a b⟩

/-- the freeblock location, any column count (also an empty partial match: the guard in front of
`decode_varint` reads the byte before it, which is inside the data) -/
theorem carvedRecord_freeblock (P : CErr → Prop) (hP : ∀ e, Absorbed e → P e) (i : RecIn) (k : Nat)
    (fc : List Int) (fb : Nat) (hwf : i.data.WF) (hsize : i.data.size < 2 ^ 53)
    (htok : TokAt i.data k i.s i.e) (hloc : i.loc = .freeblock) (hfc : i.firstCol = some fc)
    (hfb : i.fbSize = some fb) (hk : k + 1 ≤ i.nCols) : Res P (fun _ => True) (carvedRecord i) := by
  apply carvedRecord_res P hP i k hwf hsize htok (by omega) _ (Or.inl hk)
  intro a b
  have hse := tokAt_le i.data k i.s i.e htok
  exact reconstructFirst_fb P hP i fc fb hloc hfc hfb (by omega) a b

theorem candOk_freeblock (fo pn ix : Nat) (i : RecIn) (k : Nat) (fc : List Int) (fb : Nat)
    (hwf : i.data.WF) (hsize : i.data.size < 2 ^ 53)
    (htok : TokAt i.data k i.s i.e) (hloc : i.loc = .freeblock) (hfc : i.firstCol = some fc)
    (hfb : i.fbSize = some fb) (hk : k + 1 ≤ i.nCols) : CandOk fo pn ix i :=
  candOk_of_res fo pn ix i
    (carvedRecord_freeblock Absorbed (fun _ he => he) i k fc fb hwf hsize htok hloc hfc hfb hk)

/-! ### (2) the loops -/

theorem reverseLoop_err (Q : PyErr → Prop) (mk : Nat → Nat → Nat → Py (Option CarvedCell)) :
    ∀ (ms : List (Nat × Nat)), (∀ s e co er, (s, e) ∈ ms → mk s e co = .error er → Q er) →
      ∀ co er, reverseLoop mk ms co = .error er → Q er := by
  intro ms
  induction ms with
  | nil => intro _ co er h; cases h
  | cons m ms ih =>
    intro hmk co er h
    obtain ⟨s0, e0⟩ := m
    have ih' := ih (fun s e co er hm => hmk s e co er (List.mem_cons_of_mem _ hm))
    unfold reverseLoop at h
    cases hm : mk s0 e0 co with
    | error er' =>
      rw [hm] at h
      simp only [Except.error.injEq] at h
      subst h
      exact hmk s0 e0 co _ (List.mem_cons_self ..) hm
    | ok o =>
      rw [hm] at h
      cases o with
      | none => exact ih' co er h
      | some c =>
        simp only at h
        cases hr : reverseLoop mk ms s0 with
        | error er' =>
          rw [hr] at h
          simp only [Except.error.injEq] at h
          subst h
          exact ih' s0 _ hr
        | ok cs => rw [hr] at h; cases h

theorem partialInner_err (Q : PyErr → Prop) (mk : Nat → Nat → Nat → Py (Option CarvedCell)) (s e : Nat)
    (hmk : ∀ co er, mk s e co = .error er → Q er) :
    ∀ (ivs : List (Option Nat × Nat)), (∀ iv ∈ ivs, iv.1.isSome) →
      ∀ pc er, partialInner mk s e ivs pc = .error er → Q er := by
  intro ivs
  induction ivs with
  | nil => intro _ pc er h; cases h
  | cons iv ivs ih =>
    intro hiv pc er h
    obtain ⟨lo, hi⟩ := iv
    have ih' := ih (fun iv h => hiv iv (List.mem_cons_of_mem _ h))
    have hlo := hiv (lo, hi) (List.mem_cons_self ..)
    cases lo with
    | none => cases hlo
    | some lo =>
      unfold partialInner at h
      simp only at h
      split at h
      · split at h
        · rename_i er' hm
          simp only [Except.error.injEq] at h
          subst h
          exact hmk _ _ hm
        · exact ih' pc er h
        · split at h
          · rename_i er' hr
            simp only [Except.error.injEq] at h
            subst h
            exact ih' s _ hr
          · cases h
      · exact ih' pc er h

theorem partialOuter_err (Q : PyErr → Prop) (mk : Nat → Nat → Nat → Py (Option CarvedCell))
    (ivs : List (Option Nat × Nat)) (hiv : ∀ iv ∈ ivs, iv.1.isSome) :
    ∀ (ms : List (Nat × Nat)), (∀ s e co er, (s, e) ∈ ms → mk s e co = .error er → Q er) →
      ∀ pc er, partialOuter mk ivs ms pc = .error er → Q er := by
  intro ms
  induction ms with
  | nil => intro _ pc er h; cases h
  | cons m ms ih =>
    intro hmk pc er h
    obtain ⟨s0, e0⟩ := m
    have ih' := ih (fun s e co er hm => hmk s e co er (List.mem_cons_of_mem _ hm))
    unfold partialOuter at h
    split at h
    · rename_i er' hp
      simp only [Except.error.injEq] at h
      subst h
      exact partialInner_err Q mk s0 e0 (fun co er => hmk s0 e0 co er (List.mem_cons_self ..)) ivs hiv pc _ hp
    · split at h
      · rename_i er' hr
        simp only [Except.error.injEq] at h
        subst h
        exact ih' _ _ hr
      · cases h

/-- after the repair every interval has a lower bound -/
theorem uncarvedLoop_some (len n : Nat) : ∀ (l : List (Nat × Nat)) (idx : Nat) (last : Option Nat),
    n = idx + l.length → (idx = 0 ∨ last.isSome) → ∀ iv ∈ uncarvedLoop len n l idx last, iv.1.isSome := by
  intro l
  induction l with
  | nil => intro idx last _ _ iv h; cases h
  | cons m rest ih =>
    intro idx last hn hl iv h
    obtain ⟨s, e⟩ := m
    simp only [List.length_cons] at hn
    unfold uncarvedLoop at h
    have hnext : ∀ iv ∈ uncarvedLoop len n rest (idx + 1) (some e), iv.1.isSome :=
      ih (idx + 1) (some e) (by omega) (Or.inr rfl)
    have hnil : idx = n - 1 → ∀ (la : Option Nat), uncarvedLoop len n rest (idx + 1) la = [] := by
      intro hi la
      have : rest = [] := List.length_eq_zero_iff.1 (by omega)
      subst this
      rfl
    split at h
    · split at h
      · rcases List.mem_cons.1 h with rfl | h
        · rfl
        · exact hnext iv h
      · exact hnext iv h
    · split at h
      · rename_i h1 h2
        simp only [hnil h2.2] at h
        rcases List.mem_cons.1 h with rfl | h
        · rfl
        · split at h
          · rcases List.mem_cons.1 h with rfl | h
            · rfl
            · cases h
          · cases h
      · rename_i h1 h2
        have hidx : idx ≠ 0 := by
          intro h0
          by_cases hh : idx = n - 1
          · exact h2 ⟨h0, hh⟩
          · exact h1 ⟨h0, hh⟩
        have hlast : last.isSome := by
          rcases hl with hl | hl
          · exact absurd hl hidx
          · exact hl
        split at h
        · rcases List.mem_cons.1 h with rfl | h
          · exact hlast
          · exact hnext iv h
        · rename_i h3
          have h3' : idx = n - 1 := by simpa using h3
          rcases List.mem_cons.1 h with rfl | h
          · exact hlast
          · simp only [hnil h3'] at h
            split at h
            · rcases List.mem_cons.1 h with rfl | h
              · rfl
              · cases h
            · cases h

theorem uncarved_some (len : Nat) (ms : List (Nat × Nat)) : ∀ iv ∈ uncarved len ms, iv.1.isSome := by
  intro iv h
  unfold uncarved at h
  split at h
  · simp only [List.mem_singleton] at h
    subst h; rfl
  · exact uncarvedLoop_some len ms.length ms 0 none (by omega) (Or.inl rfl) iv h

theorem go_err (Q : PyErr → Prop) (per : FbIn → Py (List CarvedCell)) : ∀ (fbs : List FbIn),
    (∀ fb ∈ fbs, ∀ er, per fb = .error er → Q er) → ∀ er, carveFreeblocks.go per fbs = .error er → Q er := by
  intro fbs
  induction fbs with
  | nil => intro _ er h; cases h
  | cons fb rest ih =>
    intro hper er h
    unfold carveFreeblocks.go at h
    simp only [bind, Except.bind] at h
    split at h
    · rename_i er' hp
      simp only [Except.error.injEq] at h
      subst h
      exact hper fb (List.mem_cons_self ..) _ hp
    · split at h
      · rename_i er' hr
        simp only [Except.error.injEq] at h
        subst h
        exact ih (fun fb h => hper fb (List.mem_cons_of_mem _ h)) _ hr
      · cases h

/-! ### (3) carving completes -/

/-- a signature the carver can work with: some column, both patterns can be generated, and the column
count the Signature object reports is the number of signature columns -/
def SigOk (sig : CarveSig) : Prop :=
  ∃ fc simplified pf pp, chosenSignature sig = .ok (fc, simplified) ∧
    Regex.genSignature simplified false = .ok pf ∧ Regex.genSignature simplified true = .ok pp ∧
    sig.numberOfColumns = simplified.length

theorem chosen_length (sig : CarveSig) (fc : List Int) (simplified : List (List Int))
    (h : chosenSignature sig = .ok (fc, simplified)) : 1 ≤ simplified.length := by
  unfold chosenSignature at h
  split at h
  · cases h
  · simp only [Except.ok.injEq, Prod.mk.injEq] at h
    rw [← h.2]
    simp

theorem ok_or_outside {α : Type} (x : Py α) (h : ∀ er, x = .error er → er = .outsideModel) :
    (∃ a, x = .ok a) ∨ x = .error .outsideModel := by
  cases x with
  | ok a => exact Or.inl ⟨a, rfl⟩
  | error er => right; rw [h er rfl]

theorem carveUnallocated_err (sig : CarveSig) (h : SigOk sig) (ps pn po rs : Nat) (data : Buf)
    (hwf : data.WF) (hsize : data.size < 2 ^ 53) (er : PyErr)
    (he : carveUnallocated sig ps pn po rs data = .error er) : er = .outsideModel := by
  obtain ⟨fc, simplified, pf, pp, hc, hpf, hpp, hn⟩ := h
  have hlen := chosen_length sig fc simplified hc
  unfold carveUnallocated at he
  simp only [hc, hpf, hpp, bind, Except.bind] at he
  split at he
  · rename_i er' hfull
    simp only [Except.error.injEq] at he
    subst he
    refine reverseLoop_err (· = .outsideModel) _ _ ?_ _ _ hfull
    intro s e co er hm hmk
    have htok := finditer_tokAt simplified false pf hpf data s e (List.mem_reverse.1 hm)
    simp only [Bool.false_eq_true, if_false] at htok
    exact candOk_err _ _ _ _ (candOk_unallocated _ _ _ _ simplified.length hwf hsize htok rfl
      (by show 1 ≤ sig.numberOfColumns; omega)
      (Or.inr ⟨by show simplified.length ≤ sig.numberOfColumns; omega, rfl⟩)) er hmk
  · split at he
    · rename_i er' hpart
      simp only [Except.error.injEq] at he
      subst he
      refine partialOuter_err (· = .outsideModel) _ _ ?_ _ ?_ _ _ hpart
      · intro iv hiv
        exact uncarved_some _ _ iv (List.mem_reverse.1 hiv)
      · intro s e co er hm hmk
        have htok := finditer_tokAt simplified true pp hpp data s e (List.mem_reverse.1 hm)
        simp only [if_true, List.length_drop] at htok
        exact candOk_err _ _ _ _ (candOk_unallocated _ _ _ _ (simplified.length - 1) hwf hsize htok rfl
          (by show 1 ≤ sig.numberOfColumns; omega)
          (Or.inl (by show simplified.length - 1 + 1 ≤ sig.numberOfColumns; omega))) er hmk
    · cases he

/-- carving an unallocated region (also a freelist page, a journal page image) always returns; the
only non-result is the model's own `outsideModel` (a content size that no longer fits a float) -/
theorem completes_unallocated (sig : CarveSig) (h : SigOk sig) (ps pn po rs : Nat) (data : Buf)
    (hwf : data.WF) (hsize : data.size < 2 ^ 53) :
    (∃ cells, carveUnallocated sig ps pn po rs data = .ok cells) ∨
      carveUnallocated sig ps pn po rs data = .error .outsideModel :=
  ok_or_outside _ (carveUnallocated_err sig h ps pn po rs data hwf hsize)

/-- the exceptions that can leave `carve_freeblocks`: those of a candidate's constructor that are
not absorbed -/
theorem carveFreeblocks_err (P : CErr → Prop) (hP : ∀ e, Absorbed e → P e) (sig : CarveSig) (h : SigOk sig)
    (ps : Nat)
    (fbs : List FbIn) (hwf : ∀ fb ∈ fbs, fb.content.WF) (hsize : ∀ fb ∈ fbs, fb.content.size < 2 ^ 53)
    (er : PyErr) (he : carveFreeblocks sig ps fbs = .error er) : P (.py er) ∧ er ≠ .valueError := by
  obtain ⟨fc, simplified, pf, pp, hc, hpf, hpp, hn⟩ := h
  have hlen := chosen_length sig fc simplified hc
  unfold carveFreeblocks at he
  simp only [hc, hpp, bind, Except.bind] at he
  refine go_err (fun er => P (.py er) ∧ er ≠ .valueError) _ fbs ?_ er he
  intro fb hfb er hper
  refine reverseLoop_err (fun er => P (.py er) ∧ er ≠ .valueError) _ _ ?_ _ _ hper
  intro s e co er hm hmk
  have htok := finditer_tokAt simplified true pp hpp fb.content s e (List.mem_reverse.1 hm)
  simp only [if_true, List.length_drop] at htok
  obtain ⟨h1, h2⟩ := tryCarve_err _ _ _ _ er hmk
  refine ⟨?_, h2⟩
  have hres := carvedRecord_freeblock P hP
    { loc := .freeblock, data := fb.content, s, e, cutoff := co, nCols := sig.numberOfColumns, sig,
      firstCol := some fc, fbSize := some fb.byteSize, pageSize := ps } (simplified.length - 1) fc fb.byteSize
    (hwf fb hfb) (hsize fb hfb) htok rfl rfl rfl
    (by show simplified.length - 1 + 1 ≤ sig.numberOfColumns; omega)
  rw [h1] at hres
  exact hres

/-- the same for freeblocks, whatever the number of columns (the guard in front of `decode_varint`
closed the `ord(b'')` escape of single-column tables) -/
theorem completes_freeblocks (sig : CarveSig) (h : SigOk sig) (ps : Nat)
    (fbs : List FbIn) (hwf : ∀ fb ∈ fbs, fb.content.WF) (hsize : ∀ fb ∈ fbs, fb.content.size < 2 ^ 53) :
    (∃ cells, carveFreeblocks sig ps fbs = .ok cells) ∨ carveFreeblocks sig ps fbs = .error .outsideModel := by
  apply ok_or_outside
  intro er he
  obtain ⟨h1, h2⟩ := carveFreeblocks_err Absorbed (fun _ he => he) sig h ps fbs hwf hsize er he
  rcases h1 with h1 | h1 | h1
  · cases h1
  · simp only [CErr.py.injEq] at h1; exact absurd h1 h2
  · simp only [CErr.py.injEq] at h1; exact h1

/-- `x` completed with exactly `n` cells -/
def okLen (x : Py (List CarvedCell)) (n : Nat) : Bool :=
  match x with
  | .ok cells => decide (cells.length = n)
  | .error _ => false

theorem of_okLen {x : Py (List CarvedCell)} {n : Nat} (h : okLen x n = true) :
    ∃ cells, x = .ok cells ∧ cells.length = n := by
  cases x with
  | error e => cases h
  | ok cells => exact ⟨cells, rfl, by simpa [okLen] using h⟩

/-- the input that showed the two-column hypothesis was needed (one column, freeblock content `81`) now carves -/
theorem fixed_single_column_witness :
    SigOk sig12 ∧ ∃ cells, carveFreeblocks sig12 1024 [⟨2, 0, 200, 204, 5, Buf.ofList [0x81], 1024⟩] = .ok cells ∧
      cells.length = 1 := by
  refine ⟨⟨[1, 2], [[1, 2]], .seq [.set [1, 2]], .seq [], rfl, rfl, rfl, rfl⟩, ?_⟩
  apply of_okLen; decide +kernel

/-- FULL STATEMENT, now a theorem: for every signature the carver can work with and every byte string
(below 2^53 bytes) carving it as an unallocated region and as the content of a freeblock returns; the only
non-result is the model's own `outsideModel` (a content size that no longer fits a float exactly) -/
theorem completes (sig : CarveSig) (h : SigOk sig) (ps pn po rs : Nat) (data : Buf) (hwf : data.WF)
    (hsize : data.size < 2 ^ 53) :
    ((∃ cells, carveUnallocated sig ps pn po rs data = .ok cells) ∨
       carveUnallocated sig ps pn po rs data = .error .outsideModel) ∧
    (∀ (fbStart byteSize : Nat),
      (∃ cells, carveFreeblocks sig ps [⟨pn, 0, fbStart, fbStart + 4, byteSize, data, po⟩] = .ok cells) ∨
       carveFreeblocks sig ps [⟨pn, 0, fbStart, fbStart + 4, byteSize, data, po⟩] = .error .outsideModel) := by
  refine ⟨completes_unallocated sig h ps pn po rs data hwf hsize, fun fbStart byteSize => ?_⟩
  apply completes_freeblocks sig h ps
  · intro fb hfb
    rw [List.mem_singleton.1 hfb]
    exact hwf
  · intro fb hfb
    rw [List.mem_singleton.1 hfb]
    exact hsize

/-- RECALL without a hypothesis about completion: carving the region either leaves the model's float
range or returns cells among which is the intact record, at its place, with its stored values -/
theorem recall_region_total (sig : CarveSig) (fc : List Int) (simplified : List (List Int)) (pf pp : Regex.Pat)
    (hc : chosenSignature sig = .ok (fc, simplified)) (hpf : Regex.genSignature simplified false = .ok pf)
    (hpp : Regex.genSignature simplified true = .ok pp) (hnc : sig.numberOfColumns = simplified.length)
    (ps pn po rs : Nat) (data : Buf) (cols : List Spec.Col) (s e : Nat)
    (hv : ∀ c ∈ cols, Spec.ValidCol c) (hne : cols ≠ []) (hn : cols.length = sig.numberOfColumns)
    (hwf : data.WF) (hsize : data.size < 2 ^ 53) (hin : IntactAt data s e cols)
    (hm : (s, e) ∈ Regex.finditer pf data.toList) :
    carveUnallocated sig ps pn po rs data = .error .outsideModel ∨
    ∃ cells, carveUnallocated sig ps pn po rs data = .ok cells ∧
      ∃ c ∈ cells, c.matchStart = s ∧ c.matchEnd = e ∧ c.fileOffset = po + rs + s ∧
        c.rec_.cols = expectedCCols 0 e cols := by
  rcases completes_unallocated sig ⟨fc, simplified, pf, pp, hc, hpf, hpp, hnc⟩ ps pn po rs data hwf hsize with
    ⟨cells, h⟩ | h
  · exact Or.inr ⟨cells, h, recall_region sig fc simplified pf hc hpf ps pn po rs data cols s e hv hne hn hwf
      hsize hin hm cells h⟩
  · exact Or.inl h

end SqliteDissect.Proofs.CarveCompletes
