/-
The body of `parseBTree` with its parts named (cell step, left-child construction, right-most
descent and assembly), and the generic `Except`/`foldlM` helpers the tree proofs share.  Moved
out of Proofs/TreeFrame.lean unchanged (same namespace) so that Proofs/TreeWalk.lean can use it
and Proofs/TreeFrame.lean can use Proofs/TreeWalk.lean.
-/
import SqliteDissect.Model.Tree

namespace SqliteDissect.Proofs.TreeFrame
open SqliteDissect SqliteDissect.Model

/-! ### generic helpers -/

theorem bind_ok {α β : Type} {x : Py α} {f : α → Py β} {b : β}
    (h : (x >>= f) = .ok b) : ∃ a, x = .ok a ∧ f a = .ok b := by
  cases x with
  | error e => exact nomatch h
  | ok a => exact ⟨a, rfl, h⟩

theorem ok_bind {α β : Type} (a : α) (f : α → Py β) : ((.ok a : Py α) >>= f) = f a := rfl

/-- a property of the final state that every successful step reflects backwards holds of every
intermediate state -/
theorem foldlM_back {σ ι : Type} (f : σ → ι → Py σ) (P : σ → Prop)
    (hmono : ∀ s x s', f s x = .ok s' → P s' → P s) :
    ∀ (l : List ι) (init r : σ), l.foldlM f init = .ok r → P r → P init := by
  intro l
  induction l with
  | nil =>
    intro init r h hr
    simp only [List.foldlM_nil, pure, Except.pure, Except.ok.injEq] at h
    subst h; exact hr
  | cons x xs ih =>
    intro init r h hr
    rw [List.foldlM_cons] at h
    obtain ⟨s, hs, h⟩ := bind_ok h
    exact hmono _ _ _ hs (ih _ _ h hr)

/-- transfer of a successful fold to another step function that agrees with the first one on
every step whose result satisfies `P`, where `P` is a backwards-closed property of the final
state -/
theorem foldlM_transfer {σ ι : Type} (f g : σ → ι → Py σ) (P : σ → Prop)
    (hmono : ∀ s x s', f s x = .ok s' → P s' → P s)
    (hstep : ∀ s x s', f s x = .ok s' → P s' → g s x = .ok s') :
    ∀ (l : List ι) (init r : σ), l.foldlM f init = .ok r → P r → l.foldlM g init = .ok r := by
  intro l
  induction l with
  | nil => intro init r h _; simpa using h
  | cons x xs ih =>
    intro init r h hr
    rw [List.foldlM_cons] at h ⊢
    obtain ⟨s, hs, h⟩ := bind_ok h
    have hPs : P s := foldlM_back f P hmono xs s r h hr
    rw [hstep _ _ _ hs hPs]
    exact ih _ _ h hr

theorem foldlM_inv {σ ι : Type} (f : σ → ι → Py σ) (I : σ → Prop)
    (hstep : ∀ s x s', f s x = .ok s' → I s → I s') :
    ∀ (l : List ι) (init r : σ), l.foldlM f init = .ok r → I init → I r := by
  intro l
  induction l with
  | nil =>
    intro init r h hi
    simp only [List.foldlM_nil, pure, Except.pure, Except.ok.injEq] at h
    subst h; exact hi
  | cons x xs ih =>
    intro init r h hi
    rw [List.foldlM_cons] at h
    obtain ⟨s, hs, h⟩ := bind_ok h
    exact ih _ _ h (hstep _ _ _ hs hi)

theorem foldlM_congr_mem {σ ι : Type} (f g : σ → ι → Py σ) (l : List ι)
    (h : ∀ i ∈ l, ∀ s, f s i = g s i) : ∀ s, l.foldlM f s = l.foldlM g s := by
  induction l with
  | nil => intro s; rfl
  | cons a l ih =>
    intro s
    rw [List.foldlM_cons, List.foldlM_cons, h a (by simp) s]
    cases g s a with
    | error e => rfl
    | ok s' => exact ih (fun i hi => h i (by simp [hi])) s'

/-! ### the body of `parseBTree` with its cell step named -/

abbrev CellSt := List Cell × List (List BPage) × Int

/-- the construction of a cell's left child subtree -/
def cellSub (v : VersionIf) (fuel : Nat) (isTable : Bool) : Option Nat → Py (List BPage)
  | some lc => do
    let fb ← v.getData lc 0 (some Generated.PAGE_TYPE_LENGTH)
    match childClass isTable fb with
    | some ccls =>
      if fuel < cellDescentFrames then (.error .recursionError : Py (List BPage))
      else parseBTree v (fuel - cellDescentFrames) lc ccls
    | none => .error .parseError
  | none => pure []

/-- one iteration of the cell loop of `parseBTree v (fuel+1) _ cls` -/
def cellStep (v : VersionIf) (fuel : Nat) (cls : PageType) (page : Buf) (ptrOff : Nat)
    (st : CellSt) (idx : Nat) : Py CellSt := do
  let cellOff ← unpackAt page (ptrOff + idx * Generated.CELL_POINTER_BYTE_LENGTH) Generated.CELL_POINTER_BYTE_LENGTH
  let c ← parseCellLocal v (cellKindOf cls) page idx cellOff
  let sub ← cellSub v fuel cls.isTable c.leftChild
  let sz : Int := if cellKindOf cls ≠ .tableInterior ∧ c.hasOverflow then c.end_ - c.start
                  else max c.byteSize (Generated.MINIMUM_CELL_ALLOCATION_SIZE : Int)
  pure (st.1 ++ [c], st.2.1 ++ [sub], st.2.2 + sz)

/-- the right-most descent and the assembly of the result -/
def finish (v : VersionIf) (fuel : Nat) (cls : PageType) (hdr : PageHdr) (me : BPage)
    (subs : List (List BPage)) : Py (List BPage) :=
  if cls.isInterior then
    match hdr.rightMost with
    | none => .error .attributeError
    | some rm =>
      if rm = 0 then .error .parseError
      else do
        let fb ← v.getData rm 0 (some Generated.PAGE_TYPE_LENGTH)
        match childClass cls.isTable fb with
        | some ccls =>
          if fuel < rightMostDescentFrames then .error .recursionError
          else do
            let rsub ← parseBTree v (fuel - rightMostDescentFrames) rm ccls
            pure (me :: rsub ++ subs.flatten)
        | none => .error .parseError
  else pure [me]

def ptrOffOf (hdr : PageHdr) : Nat :=
  hdr.headerLength + (if hdr.containsDbHeader then Generated.SQLITE_DATABASE_HEADER_LENGTH else 0)

def fbsOf (page : Buf) (hdr : PageHdr) : Py (List Freeblock) :=
  if hdr.firstFreeblock ≠ 0 then freeblockWalk page 65537 0 hdr.firstFreeblock [] else pure []

def layOf (strict : Bool) (ps : Nat) (hdr : PageHdr) (st : CellSt) (fbs : List Freeblock) : Py LayoutResult :=
  layoutCheck strict ps (ptrOffOf hdr + hdr.nCells * Generated.CELL_POINTER_BYTE_LENGTH) hdr.cellContentOffset
    hdr.fragBytes
    ((st.1.map fun c => ((c.start : Int), max c.end_ ((c.start : Int) + Generated.MINIMUM_CELL_ALLOCATION_SIZE))) ++ (fbs.map fun f => ((f.start : Int), (f.end_ : Int))))
    st.2.2 ((fbs.map fun f => (f.byteSize : Int)).foldl (· + ·) 0)

def mkPage (number : Nat) (ptype : PageType) (hdr : PageHdr) (pv off : Nat) (page : Buf) (st : CellSt)
    (fbs : List Freeblock) (lay : LayoutResult) : BPage :=
  { number, ptype, hdr, pageVersion := pv, offset := off,
    unallocStart := ptrOffOf hdr + hdr.nCells * Generated.CELL_POINTER_BYTE_LENGTH,
    unallocEnd := hdr.cellContentOffset,
    cells := st.1, freeblocks := fbs, fragments := lay.fragments,
    rootOnly := if hdr.containsDbHeader then (page.slice Generated.SQLITE_DATABASE_HEADER_LENGTH page.size).toList else [] }

theorem parseBTree_succ (v : VersionIf) (fuel number : Nat) (cls : PageType) :
    parseBTree v (fuel + 1) number cls = (do
      let pv ← v.pageVersion number
      let off ← v.pageOffset number
      let page ← v.getData number 0 none
      let ptype ← btreePageType page
      let hdr ← parsePageHdr page cls.isInterior
      if hdr.containsDbHeader ∧ number ≠ Generated.SQLITE_MASTER_SCHEMA_ROOT_PAGE then .error .parseError
      else do
        let st ← (List.range hdr.nCells).foldlM (cellStep v fuel cls page (ptrOffOf hdr)) ([], [], 0)
        let fbs ← fbsOf page hdr
        let lay ← layOf v.strict v.pageSize hdr st fbs
        finish v fuel cls hdr (mkPage number ptype hdr pv off page st fbs lay) st.2.1) := by
  rw [parseBTree]
  rfl

theorem parseBTree_zero (v : VersionIf) (number : Nat) (cls : PageType) :
    parseBTree v 0 number cls = .error .recursionError := by
  rw [parseBTree]

/-- everything a successful `parseBTree v (fuel+1)` computed -/
structure Parts (v : VersionIf) (fuel number : Nat) (cls : PageType) (t : List BPage) where
  pv : Nat
  off : Nat
  page : Buf
  ptype : PageType
  hdr : PageHdr
  st : CellSt
  fbs : List Freeblock
  lay : LayoutResult
  hpv : v.pageVersion number = .ok pv
  hoff : v.pageOffset number = .ok off
  hpage : v.getData number 0 none = .ok page
  hptype : btreePageType page = .ok ptype
  hhdr : parsePageHdr page cls.isInterior = .ok hdr
  hroot : ¬ (hdr.containsDbHeader ∧ number ≠ Generated.SQLITE_MASTER_SCHEMA_ROOT_PAGE)
  hfold : (List.range hdr.nCells).foldlM (cellStep v fuel cls page (ptrOffOf hdr)) ([], [], 0) = .ok st
  hfbs : fbsOf page hdr = .ok fbs
  hlay : layOf v.strict v.pageSize hdr st fbs = .ok lay
  hfin : finish v fuel cls hdr (mkPage number ptype hdr pv off page st fbs lay) st.2.1 = .ok t

theorem parseBTree_parts (v : VersionIf) (fuel number : Nat) (cls : PageType) (t : List BPage)
    (h : parseBTree v (fuel + 1) number cls = .ok t) : Nonempty (Parts v fuel number cls t) := by
  rw [parseBTree_succ] at h
  obtain ⟨pv, hpv, h⟩ := bind_ok h
  obtain ⟨off, hoff, h⟩ := bind_ok h
  obtain ⟨page, hpage, h⟩ := bind_ok h
  obtain ⟨ptype, hptype, h⟩ := bind_ok h
  obtain ⟨hdr, hhdr, h⟩ := bind_ok h
  split at h
  · exact nomatch h
  rename_i hroot
  obtain ⟨st, hfold, h⟩ := bind_ok h
  obtain ⟨fbs, hfbs, h⟩ := bind_ok h
  obtain ⟨lay, hlay, h⟩ := bind_ok h
  exact ⟨⟨pv, off, page, ptype, hdr, st, fbs, lay, hpv, hoff, hpage, hptype, hhdr, hroot, hfold, hfbs, hlay, h⟩⟩

theorem parseBTree_of_parts (v : VersionIf) (fuel number : Nat) (cls : PageType)
    (pv off : Nat) (page : Buf) (ptype : PageType) (hdr : PageHdr) (st : CellSt)
    (fbs : List Freeblock) (lay : LayoutResult)
    (hpv : v.pageVersion number = .ok pv)
    (hoff : v.pageOffset number = .ok off)
    (hpage : v.getData number 0 none = .ok page)
    (hptype : btreePageType page = .ok ptype)
    (hhdr : parsePageHdr page cls.isInterior = .ok hdr)
    (hroot : ¬ (hdr.containsDbHeader ∧ number ≠ Generated.SQLITE_MASTER_SCHEMA_ROOT_PAGE))
    (hfold : (List.range hdr.nCells).foldlM (cellStep v fuel cls page (ptrOffOf hdr)) ([], [], 0) = .ok st)
    (hfbs : fbsOf page hdr = .ok fbs)
    (hlay : layOf v.strict v.pageSize hdr st fbs = .ok lay) :
    parseBTree v (fuel + 1) number cls
      = finish v fuel cls hdr (mkPage number ptype hdr pv off page st fbs lay) st.2.1 := by
  rw [parseBTree_succ, hpv, ok_bind, hoff, ok_bind, hpage, ok_bind, hptype, ok_bind, hhdr, ok_bind,
    if_neg hroot, hfold, ok_bind, hfbs, ok_bind, hlay, ok_bind]

theorem finish_ok (v : VersionIf) (fuel : Nat) (cls : PageType) (hdr : PageHdr) (me : BPage)
    (subs : List (List BPage)) (t : List BPage) (h : finish v fuel cls hdr me subs = .ok t) :
    (cls.isInterior = false ∧ t = [me]) ∨
    (cls.isInterior = true ∧ ∃ rm fb ccls rsub, hdr.rightMost = some rm ∧ rm ≠ 0 ∧
      v.getData rm 0 (some Generated.PAGE_TYPE_LENGTH) = .ok fb ∧ childClass cls.isTable fb = some ccls ∧
      ¬ fuel < rightMostDescentFrames ∧ parseBTree v (fuel - rightMostDescentFrames) rm ccls = .ok rsub ∧
      t = me :: (rsub ++ subs.flatten)) := by
  unfold finish at h
  split at h
  · rename_i hint
    right
    refine ⟨hint, ?_⟩
    split at h
    · exact nomatch h
    rename_i rm hrm
    split at h
    · exact nomatch h
    rename_i hrm0
    obtain ⟨fb, hfb, h⟩ := bind_ok h
    split at h
    · rename_i ccls hccls
      split at h
      · exact nomatch h
      rename_i hfuel
      obtain ⟨rsub, hrsub, h⟩ := bind_ok h
      simp only [pure, Except.pure, Except.ok.injEq] at h
      exact ⟨rm, fb, ccls, rsub, hrm, hrm0, hfb, hccls, hfuel, hrsub, h.symm⟩
    · exact nomatch h
  · rename_i hint
    left
    simp only [pure, Except.pure, Except.ok.injEq] at h
    exact ⟨by simpa using hint, h.symm⟩

theorem cellSub_ok (v : VersionIf) (fuel : Nat) (isT : Bool) (lcOpt : Option Nat) (sub : List BPage)
    (h : cellSub v fuel isT lcOpt = .ok sub) :
    (lcOpt = none ∧ sub = []) ∨
    (∃ lc fb ccls, lcOpt = some lc ∧ v.getData lc 0 (some Generated.PAGE_TYPE_LENGTH) = .ok fb ∧
      childClass isT fb = some ccls ∧ ¬ fuel < cellDescentFrames ∧
      parseBTree v (fuel - cellDescentFrames) lc ccls = .ok sub) := by
  cases lcOpt with
  | none =>
    left
    simp only [cellSub, pure, Except.pure, Except.ok.injEq] at h
    exact ⟨rfl, h.symm⟩
  | some lc =>
    right
    simp only [cellSub] at h
    obtain ⟨fb, hfb, h⟩ := bind_ok h
    split at h
    · rename_i ccls hccls
      split at h
      · exact nomatch h
      rename_i hfuel
      exact ⟨lc, fb, ccls, rfl, hfb, hccls, hfuel, h⟩
    · exact nomatch h

def cellSz (cls : PageType) (c : Cell) : Int :=
  if cellKindOf cls ≠ .tableInterior ∧ c.hasOverflow then c.end_ - c.start
  else max c.byteSize (Generated.MINIMUM_CELL_ALLOCATION_SIZE : Int)

theorem cellStep_ok (v : VersionIf) (fuel : Nat) (cls : PageType) (page : Buf) (ptrOff : Nat)
    (st st' : CellSt) (idx : Nat) (h : cellStep v fuel cls page ptrOff st idx = .ok st') :
    ∃ cellOff c sub,
      unpackAt page (ptrOff + idx * Generated.CELL_POINTER_BYTE_LENGTH) Generated.CELL_POINTER_BYTE_LENGTH = .ok cellOff ∧
      parseCellLocal v (cellKindOf cls) page idx cellOff = .ok c ∧
      cellSub v fuel cls.isTable c.leftChild = .ok sub ∧
      st' = (st.1 ++ [c], st.2.1 ++ [sub], st.2.2 + cellSz cls c) := by
  unfold cellStep at h
  obtain ⟨cellOff, h1, h⟩ := bind_ok h
  obtain ⟨c, h2, h⟩ := bind_ok h
  obtain ⟨sub, h3, h⟩ := bind_ok h
  simp only [pure, Except.pure, Except.ok.injEq] at h
  exact ⟨cellOff, c, sub, h1, h2, h3, h.symm⟩

theorem cellStep_of (v : VersionIf) (fuel : Nat) (cls : PageType) (page : Buf) (ptrOff : Nat)
    (st : CellSt) (idx : Nat) (cellOff : Nat) (c : Cell) (sub : List BPage)
    (h1 : unpackAt page (ptrOff + idx * Generated.CELL_POINTER_BYTE_LENGTH) Generated.CELL_POINTER_BYTE_LENGTH = .ok cellOff)
    (h2 : parseCellLocal v (cellKindOf cls) page idx cellOff = .ok c)
    (h3 : cellSub v fuel cls.isTable c.leftChild = .ok sub) :
    cellStep v fuel cls page ptrOff st idx = .ok (st.1 ++ [c], st.2.1 ++ [sub], st.2.2 + cellSz cls c) := by
  unfold cellStep
  rw [h1, ok_bind, h2, ok_bind, h3, ok_bind]
  rfl

/-- the root page is the head of the result -/
theorem parseBTree_head (v : VersionIf) (fuel n : Nat) (cls : PageType) (t : List BPage)
    (h : parseBTree v fuel n cls = .ok t) : ∃ me rest, t = me :: rest ∧ me.number = n := by
  cases fuel with
  | zero => rw [parseBTree_zero] at h; exact nomatch h
  | succ fuel =>
    obtain ⟨P⟩ := parseBTree_parts v fuel n cls t h
    rcases finish_ok _ _ _ _ _ _ _ P.hfin with ⟨_, ht⟩ | ⟨_, rm, fb, ccls, rsub, _, _, _, _, _, _, ht⟩
    · exact ⟨_, [], ht, rfl⟩
    · exact ⟨_, _, ht, rfl⟩

theorem finish_leaf (v : VersionIf) (fuel : Nat) (cls : PageType) (hdr : PageHdr) (me : BPage)
    (subs : List (List BPage)) (hl : cls.isInterior = false) :
    finish v fuel cls hdr me subs = .ok [me] := by
  unfold finish
  rw [if_neg (by simp [hl])]
  rfl

theorem finish_interior (v : VersionIf) (fuel : Nat) (cls : PageType) (hdr : PageHdr) (me : BPage)
    (subs : List (List BPage)) (rm : Nat) (fb : Buf) (ccls : PageType) (rsub : List BPage)
    (hi : cls.isInterior = true) (hrm : hdr.rightMost = some rm) (hrm0 : rm ≠ 0)
    (hfb : v.getData rm 0 (some Generated.PAGE_TYPE_LENGTH) = .ok fb)
    (hccls : childClass cls.isTable fb = some ccls) (hfuel : ¬ fuel < rightMostDescentFrames)
    (hrsub : parseBTree v (fuel - rightMostDescentFrames) rm ccls = .ok rsub) :
    finish v fuel cls hdr me subs = .ok (me :: (rsub ++ subs.flatten)) := by
  unfold finish
  rw [if_pos hi, hrm]
  simp only
  rw [if_neg hrm0, hfb, ok_bind, hccls]
  simp only
  rw [if_neg hfuel, hrsub, ok_bind]
  rfl

theorem cellKind_leaf (cls : PageType) (h : cls.isInterior = false) :
    cellKindOf cls = .tableLeaf ∨ cellKindOf cls = .indexLeaf := by
  cases cls <;> simp [PageType.isInterior, cellKindOf] at h ⊢

theorem cellKind_interior (cls : PageType) (h : cls.isInterior = true) :
    cellKindOf cls = .tableInterior ∨ cellKindOf cls = .indexInterior := by
  cases cls <;> simp [PageType.isInterior, cellKindOf] at h ⊢

/-! ### cell shapes (moved from the `frame` section of Proofs/TreeFrame.lean) -/

theorem parsePayloadCell_leftChild (v : VersionIf) (kind : CellKind) (page : Buf) (index start : Nat)
    (lc : Option Nat) (rowid : Option Int) (p : Int) (prefixLen : Nat) (c : Cell)
    (h : parsePayloadCell v kind page index start lc rowid p prefixLen = .ok c) :
    c.leftChild = lc := by
  unfold parsePayloadCell at h
  simp only at h
  obtain ⟨ovNum, _, h⟩ := bind_ok h
  generalize calcExpectedOverflow _ _ = ce at h
  cases ce with
  | none => exact nomatch h
  | some val =>
    obtain ⟨expPages, expLast⟩ := val
    simp only at h
    obtain ⟨chain, hch, h⟩ := bind_ok h
    by_cases hc1 : expPages ≠ (dictOfChain chain).length
    · rw [if_pos hc1] at h; exact nomatch h
    rw [if_neg hc1] at h
    revert h
    cases hgl : chain.getLast? <;> intro h <;> simp only at h <;> (
      split at h
      · exact nomatch h
      obtain ⟨ovBuf, hob, h⟩ := bind_ok h
      obtain ⟨rec_, hrec, h⟩ := bind_ok h
      simp only [pure, Except.pure, Except.ok.injEq] at h
      rw [← h])

/-- leaf cells have no child pointer; interior cells always have one; table-interior cells carry
no overflow pages -/
theorem parseCellLocal_shape (v : VersionIf) (kind : CellKind) (page : Buf) (index start : Nat) (c : Cell)
    (h : parseCellLocal v kind page index start = .ok c) :
    (kind = .tableLeaf ∨ kind = .indexLeaf → c.leftChild = none) ∧
    (kind = .tableInterior ∨ kind = .indexInterior → ∃ lc, c.leftChild = some lc) ∧
    (kind = .tableInterior → c.overflowPages = []) := by
  cases kind with
  | tableInterior =>
    unfold parseCellLocal at h
    simp only at h
    obtain ⟨lc, h0, h⟩ := bind_ok h
    obtain ⟨⟨rowid, n⟩, h1, h⟩ := bind_ok h
    simp only at h
    split at h
    · exact nomatch h
    simp only [pure, Except.pure, Except.ok.injEq] at h
    subst h
    exact ⟨by simp, fun _ => ⟨lc, rfl⟩, fun _ => rfl⟩
  | tableLeaf =>
    unfold parseCellLocal at h
    simp only at h
    obtain ⟨⟨p, n1⟩, h1, h⟩ := bind_ok h
    obtain ⟨⟨rowid, n2⟩, h2, h⟩ := bind_ok h
    simp only at h
    exact ⟨fun _ => parsePayloadCell_leftChild v _ _ _ _ _ _ _ _ _ h, by simp, by simp⟩
  | indexLeaf =>
    unfold parseCellLocal at h
    simp only at h
    obtain ⟨⟨p, n1⟩, h1, h⟩ := bind_ok h
    exact ⟨fun _ => parsePayloadCell_leftChild v _ _ _ _ _ _ _ _ _ h, by simp, by simp⟩
  | indexInterior =>
    unfold parseCellLocal at h
    simp only at h
    obtain ⟨lc, h0, h⟩ := bind_ok h
    obtain ⟨⟨p, n1⟩, h1, h⟩ := bind_ok h
    obtain ⟨c0, h2, h⟩ := bind_ok h
    split at h
    · exact nomatch h
    simp only [pure, Except.pure, Except.ok.injEq] at h
    subst h
    exact ⟨by simp, fun _ => ⟨lc, parsePayloadCell_leftChild v _ _ _ _ _ _ _ _ _ h2⟩, by simp⟩

/-- the cell loop of a leaf page constructs no subtrees -/
theorem fold_leaf_subs (v : VersionIf) (fuel : Nat) (cls : PageType) (page : Buf) (ptrOff : Nat)
    (hl : cls.isInterior = false) (l : List Nat) (init st : CellSt)
    (h : l.foldlM (cellStep v fuel cls page ptrOff) init = .ok st)
    (hi : ∀ s ∈ init.2.1, s = []) : ∀ s ∈ st.2.1, s = [] := by
  refine foldlM_inv (cellStep v fuel cls page ptrOff) (fun st => ∀ s ∈ st.2.1, s = []) ?_ l init st h hi
  intro s x s' hs hI
  obtain ⟨cellOff, c, sub, _, h2, h3, rfl⟩ := cellStep_ok _ _ _ _ _ _ _ _ hs
  have hlc := (parseCellLocal_shape v _ _ _ _ _ h2).1 (cellKind_leaf cls hl)
  rw [hlc] at h3
  rcases cellSub_ok _ _ _ _ _ h3 with ⟨_, hsub⟩ | ⟨lc, _, _, hlc', _⟩
  · intro s0 hs0
    simp only [List.mem_append, List.mem_singleton] at hs0
    rcases hs0 with hs0 | hs0
    · exact hI s0 hs0
    · rw [hs0, hsub]
  · exact nomatch hlc'

end SqliteDissect.Proofs.TreeFrame
