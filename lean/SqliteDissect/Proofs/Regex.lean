/-
Helper lemmas about Model.Regex: what the generated column patterns admit.
-/
import SqliteDissect.Model.Regex
import SqliteDissect.Proofs.Codec
import Mathlib.Data.List.Nodup
import Mathlib.Data.List.Perm.Subperm

namespace SqliteDissect.Proofs.Regex
open SqliteDissect SqliteDissect.Model SqliteDissect.Model.Regex

/-- `p` can consume exactly `tok` in front of anything the continuation accepts -/
def Admits (p : Pat) (tok : List Nat) : Prop :=
  ∀ (k : List Nat → Option Unit) (rest : List Nat), (k rest).isSome = true →
    (m p (tok ++ rest) k).isSome = true

theorem admits_lit (b : Nat) : Admits (.lit b) [b] := by
  intro k rest h
  simp only [List.singleton_append, m, if_true]
  exact h

theorem admits_cls (lo hi c : Nat) (h1 : lo ≤ c) (h2 : c ≤ hi) : Admits (.cls lo hi) [c] := by
  intro k rest h
  simp only [List.singleton_append, m, h1, h2, and_self, if_true]
  exact h

theorem admits_set (bs : List Nat) (c : Nat) (hc : c ∈ bs) : Admits (.set bs) [c] := by
  intro k rest h
  simp only [List.singleton_append, m, hc, if_true]
  exact h

theorem malt_of_mem (k : List Nat → Option Unit) (s : List Nat) :
    ∀ (ps : List Pat) (p : Pat), p ∈ ps → (m p s k).isSome = true → (malt ps s k).isSome = true := by
  intro ps
  induction ps with
  | nil => intro p hp; cases hp
  | cons q qs ih =>
    intro p hp hm
    unfold malt
    cases hq : m q s k with
    | some a => rfl
    | none =>
      simp only
      rcases List.mem_cons.1 hp with h | h
      · subst h; rw [hq] at hm; cases hm
      · exact ih p h hm

theorem admits_alt (ps : List Pat) (p : Pat) (tok : List Nat) (hp : p ∈ ps) (h : Admits p tok) :
    Admits (.alt ps) tok := by
  intro k rest hk
  simp only [m]
  exact malt_of_mem k _ ps p hp (h k rest hk)

theorem repLoop_cont (step : List Nat → (List Nat → Option Unit) → Option Unit)
    (hstep : ∀ (c : Nat) (r : List Nat) (k' : List Nat → Option Unit), 0x80 ≤ c ∧ c ≤ 0xFF → step (c :: r) k' = k' r)
    (k : List Nat → Option Unit) (rest : List Nat) (hk : (k rest).isSome = true) :
    ∀ (cb : List Nat) (hi lo : Nat), (∀ x ∈ cb, 0x80 ≤ x ∧ x ≤ 0xFF) → lo ≤ cb.length → cb.length ≤ hi →
      (repLoop step hi lo (cb ++ rest) k).isSome = true := by
  intro cb
  induction cb with
  | nil =>
    intro hi lo _ hlo _
    have h0 : lo = 0 := by simpa using hlo
    subst h0
    cases hi with
    | zero => simp only [List.nil_append, repLoop, if_true]; exact hk
    | succ hi =>
      simp only [List.nil_append, repLoop]
      split
      · rfl
      · simp only [if_true]; exact hk
  | cons c cb ih =>
    intro hi lo hb hlo hhi
    cases hi with
    | zero => simp at hhi
    | succ hi =>
      have hc := hb c (List.mem_cons_self ..)
      have hrec := ih hi (lo - 1) (fun x hx => hb x (List.mem_cons_of_mem _ hx))
        (by simp only [List.length_cons] at hlo; omega) (by simp only [List.length_cons] at hhi; omega)
      simp only [List.cons_append, repLoop, hstep c _ _ hc]
      split
      · rfl
      · rename_i hnone
        rw [hnone] at hrec
        cases hrec

theorem step_cls (c : Nat) (r : List Nat) (k' : List Nat → Option Unit) (hc : 0x80 ≤ c ∧ c ≤ 0xFF) :
    m (.cls 0x80 0xFF) (c :: r) k' = k' r := by
  simp only [m, hc.1, hc.2, and_self, if_true]

theorem admits_varTail (cb : List Nat) (last : Nat) (hb : ∀ x ∈ cb, 0x80 ≤ x ∧ x ≤ 0xFF)
    (h1 : 1 ≤ cb.length) (h7 : cb.length ≤ 7) (hl : last ≤ 0x7F) : Admits varTail (cb ++ [last]) := by
  intro k rest hk
  simp only [varTail, m, mseq, List.append_assoc]
  apply repLoop_cont _ step_cls _ ([last] ++ rest) _ cb 7 1 hb h1 h7
  simp only [List.singleton_append, Nat.zero_le, hl, and_self, if_true]
  exact hk

/-! ### the shape of SQLite's varint for a serial type -/

theorem put_small (u : Nat) (hu : u < 128) : Spec.putVarint u = [u] := by
  unfold Spec.putVarint
  have h56 : u < 2 ^ 56 := by simp only [Nat.reducePow]; omega
  rw [if_pos h56]
  have hl : Spec.varintLen u = 1 := by
    rcases Codec.varintLen_cases u with h | h | h | h | h | h | h | h | h <;>
      (simp only [Nat.reducePow] at h; omega)
  rw [hl]
  simp only [Nat.sub_self, Spec.contBytes, List.nil_append]
  congr 1
  exact Nat.mod_eq_of_lt hu

theorem put_big (u : Nat) (hlo : 128 ≤ u) (hu : u < 2 ^ 56) :
    ∃ cb last, Spec.putVarint u = cb ++ [last] ∧ (∀ x ∈ cb, 0x80 ≤ x ∧ x ≤ 0xFF) ∧
      1 ≤ cb.length ∧ cb.length ≤ 7 ∧ last ≤ 0x7F := by
  refine ⟨Spec.contBytes (Spec.varintLen u - 1) (u / 128), u % 128, ?_, ?_, ?_, ?_, ?_⟩
  · unfold Spec.putVarint; rw [if_pos hu]
  · intro x hx
    have := Codec.contBytes_mem _ _ _ hx
    omega
  · rw [Codec.contBytes_length]
    rcases Codec.varintLen_cases u with h | h | h | h | h | h | h | h | h <;>
      (simp only [Nat.reducePow] at h; omega)
  · rw [Codec.contBytes_length]
    have := (Codec.varintLen_lt_pow u hu).1
    omega
  · omega

/-! ### generate_regex_for_simplified_serial_type -/

def blobPat : Pat := .alt [.cls 0x0D 0x7F, varTail]
def textPat : Pat := .alt [.cls 0x0C 0x7F, varTail]

theorem gen_blob : genSimplified (-1) = .ok blobPat := by rfl
theorem gen_text : genSimplified (-2) = .ok textPat := by rfl

theorem gen_basic (t : Int) (h0 : 0 ≤ t) (h9 : t ≤ 9) : genSimplified t = .ok (.lit t.toNat) := by
  unfold genSimplified
  rw [if_neg (by omega), if_neg (by omega), if_pos ⟨h0, h9⟩]

theorem admits_text_small (u : Nat) (h1 : 12 ≤ u) (h2 : u < 128) : Admits textPat [u] :=
  admits_alt _ _ _ (List.mem_cons_self ..) (admits_cls _ _ _ h1 (by omega))

theorem admits_blob_small (u : Nat) (h1 : 13 ≤ u) (h2 : u < 128) : Admits blobPat [u] :=
  admits_alt _ _ _ (List.mem_cons_self ..) (admits_cls _ _ _ h1 (by omega))

theorem admits_big (p : Pat) (hp : p = blobPat ∨ p = textPat) (u : Nat) (hlo : 128 ≤ u) (hu : u < 2 ^ 56) :
    Admits p (Spec.putVarint u) := by
  obtain ⟨cb, last, he, hb, h1, h7, hl⟩ := put_big u hlo hu
  rw [he]
  rcases hp with h | h <;> subst h <;>
    exact admits_alt _ _ _ (List.mem_cons_of_mem _ (List.mem_cons_self ..)) (admits_varTail cb last hb h1 h7 hl)

/-! ### the inner loop of generate_signature_regex -/

/-- bytes collected in `basic_serial_type_regex` -/
def basicBytes (c : List Int) : List Nat := (c.filter fun x => decide (0 ≤ x)).map Int.toNat

theorem scanCol_spec : ∀ (c : List Int) (a : Acc), (∀ x ∈ c, -2 ≤ x ∧ x ≤ 9) →
    scanCol c a = .ok ⟨a.basic ++ basicBytes c,
      if (-1 : Int) ∈ c then some blobPat else a.blob, if (-2 : Int) ∈ c then some textPat else a.text⟩ := by
  intro c
  induction c with
  | nil => intro a _; simp [scanCol, basicBytes]
  | cons t ts ih =>
    intro a hr
    have ht := hr t (List.mem_cons_self ..)
    have hts : ∀ x ∈ ts, -2 ≤ x ∧ x ≤ 9 := fun x hx => hr x (List.mem_cons_of_mem _ hx)
    unfold scanCol
    by_cases h1 : t = -1
    · subst h1
      rw [gen_blob]
      simp only [if_true]
      rw [ih _ hts]
      by_cases hm : (-1 : Int) ∈ ts <;> by_cases hm2 : (-2 : Int) ∈ ts <;>
        simp [basicBytes, hm, hm2]
    · by_cases h2 : t = -2
      · subst h2
        rw [gen_text]
        simp only [show ¬ ((-2 : Int) = -1) by decide, if_false, if_true]
        rw [ih _ hts]
        by_cases hm : (-1 : Int) ∈ ts <;> by_cases hm2 : (-2 : Int) ∈ ts <;>
          simp [basicBytes, hm, hm2]
      · have h0 : 0 ≤ t := by omega
        rw [gen_basic t h0 ht.2]
        simp only [h1, h2, if_false]
        rw [ih _ hts]
        have e1 : ((-1 : Int) ∈ t :: ts) = ((-1 : Int) ∈ ts) := by
          simp only [List.mem_cons, eq_iff_iff]; constructor
          · rintro (h | h); exact absurd h.symm h1; exact h
          · exact Or.inr
        have e2 : ((-2 : Int) ∈ t :: ts) = ((-2 : Int) ∈ ts) := by
          simp only [List.mem_cons, eq_iff_iff]; constructor
          · rintro (h | h); exact absurd h.symm h2; exact h
          · exact Or.inr
        simp only [e1, e2, print, basicBytes, List.filter_cons, h0, decide_true, if_true, List.map_cons,
          List.append_assoc, List.singleton_append]

theorem basic_mem (c : List Int) (t : Int) (h0 : 0 ≤ t) (hm : t ∈ c) : t.toNat ∈ basicBytes c := by
  unfold basicBytes
  exact List.mem_map.2 ⟨t, List.mem_filter.2 ⟨hm, by simpa using h0⟩, rfl⟩

theorem basic_empty (c : List Int) (h : basicBytes c = []) : ∀ x ∈ c, x < 0 := by
  intro x hx
  by_contra hneg
  have : x.toNat ∈ basicBytes c := basic_mem c x (by omega) hx
  rw [h] at this
  cases this

/-- twelve values: a duplicate-free list drawn from -2..9 has at most twelve entries -/
theorem length_le_twelve (c : List Int) (hr : ∀ x ∈ c, -2 ≤ x ∧ x ≤ 9) (hnd : c.Nodup) : c.length ≤ 12 := by
  have hsub : c ⊆ [-2, -1, 0, 1, 2, 3, 4, 5, 6, 7, 8, 9] := by
    intro x hx
    have := hr x hx
    simp only [List.mem_cons, List.not_mem_nil, or_false]
    omega
  exact (List.Nodup.subperm hnd hsub).length_le

/-- the three facts about the pattern of one column the soundness proof uses -/
structure ColShape (c : List Int) (p : Pat) : Prop where
  basic : ∀ t : Int, 0 ≤ t → t ∈ c → Admits p [t.toNat]
  blob : (-1 : Int) ∈ c → ∀ tok, Admits blobPat tok → Admits p tok
  text : (-2 : Int) ∈ c → ∀ tok, Admits textPat tok → Admits p tok

theorem genColumn_shape (c : List Int) (hne : c ≠ []) (hr : ∀ x ∈ c, -2 ≤ x ∧ x ≤ 9) (hnd : c.Nodup) :
    ∃ p, genColumn c = .ok p ∧ ColShape c p := by
  unfold genColumn
  split
  · -- a single alternative
    rename_i t
    have ht := hr t (List.mem_cons_self ..)
    by_cases h1 : t = -1
    · subst h1
      refine ⟨blobPat, gen_blob, ⟨?_, fun _ _ h => h, ?_⟩⟩
      · intro t h0 hm; simp only [List.mem_singleton] at hm; omega
      · intro hm; simp at hm
    · by_cases h2 : t = -2
      · subst h2
        refine ⟨textPat, gen_text, ⟨?_, ?_, fun _ _ h => h⟩⟩
        · intro t h0 hm; simp only [List.mem_singleton] at hm; omega
        · intro hm; simp at hm
      · have h0 : 0 ≤ t := by omega
        refine ⟨_, gen_basic t h0 ht.2, ⟨?_, ?_, ?_⟩⟩
        · intro t' _ hm
          simp only [List.mem_singleton] at hm
          subst hm
          exact admits_lit _
        · intro hm; simp only [List.mem_singleton] at hm; omega
        · intro hm; simp only [List.mem_singleton] at hm; omega
  · rename_i hnot
    have hlen2 : 1 < c.length := by
      cases c with
      | nil => exact absurd rfl hne
      | cons a tl =>
        cases tl with
        | nil => exact absurd rfl (hnot a)
        | cons b tl' => simp
    have hlen12 := length_le_twelve c hr hnd
    rw [if_pos ⟨hlen2, by omega⟩, scanCol_spec c _ hr]
    simp only [List.nil_append]
    have hbasicAd : ∀ t : Int, 0 ≤ t → t ∈ c → Admits (.set (basicBytes c)) [t.toNat] :=
      fun t h0 hm => admits_set _ _ (basic_mem c t h0 hm)
    by_cases hb : (-1 : Int) ∈ c <;> by_cases ht : (-2 : Int) ∈ c
    · -- blob and text
      simp only [hb, ht, if_true]
      by_cases he : (basicBytes c).isEmpty = true
      · simp only [he, if_true]
        refine ⟨_, rfl, ⟨?_, ?_, ?_⟩⟩
        · intro t h0 hm
          have := basic_empty c (List.isEmpty_iff.1 he) t hm
          omega
        · intro _ tok h; exact admits_alt _ _ _ (List.mem_cons_self ..) h
        · intro _ tok h; exact admits_alt _ _ _ (List.mem_cons_of_mem _ (List.mem_cons_self ..)) h
      · simp only [he, Bool.false_eq_true, if_false]
        refine ⟨_, rfl, ⟨?_, ?_, ?_⟩⟩
        · intro t h0 hm; exact admits_alt _ _ _ (List.mem_cons_self ..) (hbasicAd t h0 hm)
        · intro _ tok h; exact admits_alt _ _ _ (List.mem_cons_of_mem _ (List.mem_cons_self ..)) h
        · intro _ tok h
          exact admits_alt _ _ _ (List.mem_cons_of_mem _ (List.mem_cons_of_mem _ (List.mem_cons_self ..))) h
    · -- blob only
      simp only [hb, ht, if_true, if_false]
      have he : ¬ ((basicBytes c).isEmpty = true) := by
        intro he
        have hall := basic_empty c (List.isEmpty_iff.1 he)
        -- every entry is -1: impossible for a duplicate-free list of length ≥ 2
        have hall1 : ∀ x ∈ c, x = -1 := by
          intro x hx
          have h1 := hr x hx
          have h2 := hall x hx
          by_cases hx2 : x = -2
          · subst hx2; exact absurd hx ht
          · omega
        cases c with
        | nil => exact absurd rfl hne
        | cons a tl =>
          cases tl with
          | nil => simp at hlen2
          | cons b tl' =>
            have ha := hall1 a (List.mem_cons_self ..)
            have hb' := hall1 b (List.mem_cons_of_mem _ (List.mem_cons_self ..))
            have := (List.nodup_cons.1 hnd).1
            apply this
            rw [ha, hb']
            exact List.mem_cons_self ..
      simp only [he]
      refine ⟨_, rfl, ⟨?_, ?_, ?_⟩⟩
      · intro t h0 hm; exact admits_alt _ _ _ (List.mem_cons_self ..) (hbasicAd t h0 hm)
      · intro _ tok h; exact admits_alt _ _ _ (List.mem_cons_of_mem _ (List.mem_cons_self ..)) h
      · intro h; exact absurd h ht
    · -- text only
      simp only [hb, ht, if_true, if_false]
      have he : ¬ ((basicBytes c).isEmpty = true) := by
        intro he
        have hall := basic_empty c (List.isEmpty_iff.1 he)
        have hall1 : ∀ x ∈ c, x = -2 := by
          intro x hx
          have h1 := hr x hx
          have h2 := hall x hx
          by_cases hx2 : x = -1
          · subst hx2; exact absurd hx hb
          · omega
        cases c with
        | nil => exact absurd rfl hne
        | cons a tl =>
          cases tl with
          | nil => simp at hlen2
          | cons b tl' =>
            have ha := hall1 a (List.mem_cons_self ..)
            have hb' := hall1 b (List.mem_cons_of_mem _ (List.mem_cons_self ..))
            have := (List.nodup_cons.1 hnd).1
            apply this
            rw [ha, hb']
            exact List.mem_cons_self ..
      simp only [he]
      refine ⟨_, rfl, ⟨?_, ?_, ?_⟩⟩
      · intro t h0 hm; exact admits_alt _ _ _ (List.mem_cons_self ..) (hbasicAd t h0 hm)
      · intro h; exact absurd h hb
      · intro _ tok h; exact admits_alt _ _ _ (List.mem_cons_of_mem _ (List.mem_cons_self ..)) h
    · -- basic only
      simp only [hb, ht, if_false]
      have he : ¬ ((basicBytes c).isEmpty = true) := by
        intro he
        have hall := basic_empty c (List.isEmpty_iff.1 he)
        cases c with
        | nil => exact absurd rfl hne
        | cons a tl =>
          have h1 := hr a (List.mem_cons_self ..)
          have h2 := hall a (List.mem_cons_self ..)
          have : a ≠ -1 := fun h => hb (h ▸ List.mem_cons_self ..)
          have : a ≠ -2 := fun h => ht (h ▸ List.mem_cons_self ..)
          omega
      simp only [he]
      refine ⟨_, rfl, ⟨hbasicAd, ?_, ?_⟩⟩
      · intro h; exact absurd h hb
      · intro h; exact absurd h ht

/-- The column pattern admits SQLite's varint of every serial type whose class the column
lists — except the empty blob (serial type 12) when the column lists blobs but not texts. -/
theorem genColumn_admits (c : List Int) (hne : c ≠ []) (hr : ∀ x ∈ c, -2 ≤ x ∧ x ≤ 9) (hnd : c.Nodup)
    (t : Int) (hvalid : (0 ≤ t ∧ t ≤ 9) ∨ 12 ≤ t) (h56 : t < 2 ^ 56)
    (hmem : serialTypeSignature t ∈ c) (hlone : t = 12 → (-2 : Int) ∈ c) :
    ∃ p, genColumn c = .ok p ∧ Admits p (Spec.putVarint t.toNat) := by
  obtain ⟨p, hp, sh⟩ := genColumn_shape c hne hr hnd
  refine ⟨p, hp, ?_⟩
  rcases hvalid with ⟨h0, h9⟩ | h12
  · have hs : serialTypeSignature t = t := by
      unfold serialTypeSignature; rw [if_neg (by omega)]
    rw [hs] at hmem
    rw [put_small _ (by omega)]
    exact sh.basic t h0 hmem
  · have h56' : t.toNat < 2 ^ 56 := by
      have : (t.toNat : Int) = t := Int.toNat_of_nonneg (by omega)
      have h56i : t < (2 ^ 56 : Nat) := by exact_mod_cast h56
      omega
    unfold serialTypeSignature at hmem
    rw [if_pos (by omega)] at hmem
    by_cases hev : t % 2 = 0
    · rw [if_pos hev] at hmem
      by_cases hsmall : t < 128
      · rw [put_small _ (by omega)]
        by_cases h12' : t = 12
        · have := hlone h12'
          subst h12'
          exact sh.text this _ (admits_text_small 12 (by omega) (by omega))
        · exact sh.blob hmem _ (admits_blob_small _ (by omega) (by omega))
      · exact sh.blob hmem _ (admits_big _ (Or.inl rfl) _ (by omega) h56')
    · rw [if_neg hev] at hmem
      by_cases hsmall : t < 128
      · rw [put_small _ (by omega)]
        exact sh.text hmem _ (admits_text_small _ (by omega) (by omega))
      · exact sh.text hmem _ (admits_big _ (Or.inr rfl) _ (by omega) h56')

/-- SQLite's serial-type header of a row: the varints of its serial types -/
def header (types : List Int) : List Nat := types.flatMap fun t => Spec.putVarint t.toNat

/-- columns admit their tokens one by one ⇒ the concatenation full-matches the header -/
theorem mseq_admits : ∀ (ps : List Pat) (toks : List (List Nat)),
    List.Forall₂ Admits ps toks → ∀ (k : List Nat → Option Unit) (rest : List Nat),
      (k rest).isSome = true → (mseq ps (toks.flatten ++ rest) k).isSome = true := by
  intro ps toks h
  induction h with
  | nil => intro k rest hk; simpa [mseq] using hk
  | cons hpt _ ih =>
    intro k rest hk
    simp only [mseq, List.flatten_cons, List.append_assoc]
    exact hpt _ _ (ih k rest hk)

theorem fullMatch_of_admits (ps : List Pat) (toks : List (List Nat)) (h : List.Forall₂ Admits ps toks) :
    fullMatch (.seq ps) toks.flatten = true := by
  unfold fullMatch
  simp only [m]
  have := mseq_admits ps toks h (fun r => if r.isEmpty then some () else none) [] (by simp)
  simpa using this

end SqliteDissect.Proofs.Regex
