/-
Concrete inputs for Properties/C18Cost.lean: freelist trunk chains (acyclic, cyclic, forged leaf
count), pointer-map pages, a small write-ahead log, a rollback journal of zero bytes, and a leaf
page two cells of which share one overflow chain.
-/
import SqliteDissect.Proofs.Cost
import SqliteDissect.Proofs.TreeDemo
import SqliteDissect.Proofs.Codec
namespace SqliteDissect.Proofs.CostDemo
open SqliteDissect SqliteDissect.Model SqliteDissect.Spec
open SqliteDissect.Proofs.TreeDemo SqliteDissect.Proofs

/-- a version of 16-byte pages; page `p` holds the bytes `pg p` (padded with zeros) -/
def stub16 (pg : Nat → List Nat) : VersionIf :=
  { pageSize := 16, versionNumber := 0, strict := true,
    getData := fun p _ _ => .ok (Buf.ofList ((pg p ++ List.replicate 16 0).take 16)),
    pageVersion := fun _ => .ok 0, pageOffset := fun p => .ok ((p - 1) * 16) }

/-- trunk 2 → trunk 3 → end; trunk 2 lists the leaf 7 -/
def flPages : Nat → List Nat
  | 2 => [0, 0, 0, 3, 0, 0, 0, 1, 0, 0, 0, 7]
  | _ => []

/-- every page is a trunk whose next pointer names page 2: a cyclic trunk chain -/
def flCycle : Nat → List Nat := fun _ => [0, 0, 0, 2]

/-- a trunk that claims 2^32 - 1 leaves -/
def flForged : Nat → List Nat
  | 2 => [0, 0, 0, 0, 255, 255, 255, 255, 0, 0, 0, 7, 0, 0, 0, 8]
  | _ => []

theorem freelist_demo :
    parseFreelistLog (stub16 flPages) 10 2 = ([(2, 1), (3, 0)], .ok [⟨2, 3, [7], 0⟩, ⟨3, 0, [], 0⟩]) := by
  decide +kernel

/-- the cyclic chain is followed until the frames run out: `fuel` trunk constructions, then
`RecursionError` -/
theorem freelist_cycle_demo :
    parseFreelistLog (stub16 flCycle) 5 2 = ([(2, 0), (2, 0), (2, 0), (2, 0), (2, 0)], .error .recursionError) ∧
    parseFreelist (stub16 flCycle) 5 2 = .error .recursionError := by
  decide +kernel

/-- the forged count: the loop stops at the first pointer that does not fit into the page (the
third step), long before the cap `pageSize / 4 + 1 = 5` -/
theorem freelist_forged_demo :
    parseFreelistLog (stub16 flForged) 10 2 = ([(2, 3)], .error .structError) := by
  decide +kernel

/-- 10-byte pages: two pointer-map entries per page (type 1 = root page, no parent) -/
def stub10 (pg : Nat → List Nat) : VersionIf :=
  { pageSize := 10, versionNumber := 0, strict := true,
    getData := fun p _ _ => .ok (Buf.ofList ((pg p ++ List.replicate 10 0).take 10)),
    pageVersion := fun _ => .ok 0, pageOffset := fun p => .ok ((p - 1) * 10) }

def pmPages : Nat → List Nat := fun _ => [1, 0, 0, 0, 0, 1, 0, 0, 0, 0]
/-- page 5 has an entry of type 0 -/
def pmBad : Nat → List Nat
  | 5 => [1, 0, 0, 0, 0, 0, 0, 0, 0, 0]
  | _ => [1, 0, 0, 0, 0, 1, 0, 0, 0, 0]

/-- a 9-page database, 2 entries per page: pointer-map pages 2, 5, 8 with 2, 2, 1 entries — 3 page
constructions and 5 entry steps, 8 = D - 1 in all -/
theorem ptrmap_demo :
    (createPtrmapPagesLog (stub10 pmPages) 9).1 = [(2, 2), (5, 2), (8, 1)] ∧
    (createPtrmapPagesLog (stub10 pmPages) 9).2.map (·.map fun p => (p.number, p.nEntries)) = .ok [(2, 2), (5, 2), (8, 1)] ∧
    createPtrmapPagesLog (stub10 pmBad) 9 = ([(2, 2), (5, 2)], .error .parseError) := by
  decide +kernel

/-! a write-ahead log with 8-byte pages: header, then frames of 24 + 8 bytes -/

def walHdr (ps : Nat) : List Nat :=
  Spec.be32 931071618 ++ Spec.be32 3007000 ++ Spec.be32 ps ++ Spec.be32 0 ++ Spec.be32 11 ++ Spec.be32 22 ++
    Spec.be32 0 ++ Spec.be32 0

def walFrame (page commit salt2 : Nat) : List Nat :=
  Spec.be32 page ++ Spec.be32 commit ++ Spec.be32 11 ++ Spec.be32 salt2 ++ Spec.be32 0 ++ Spec.be32 0 ++
    List.replicate 8 7

/-- two frames, the second a commit frame: both are read -/
def walGood : Buf := Buf.ofList (walHdr 8 ++ walFrame 2 0 22 ++ walFrame 3 3 22)
/-- the second of three frames has a wrong salt: the third is never read -/
def walBad : Buf := Buf.ofList (walHdr 8 ++ walFrame 2 0 22 ++ walFrame 3 3 99 ++ walFrame 3 3 22)
/-- the header claims page size 0: frames of 24 bytes -/
def walZero : Buf := Buf.ofList (walHdr 0 ++ List.replicate 72 0)
/-- the header claims page size 2^32 - 1: no frame fits -/
def walHuge : Buf := Buf.ofList (walHdr 4294967295 ++ walFrame 2 0 22 ++ walFrame 3 3 22)

theorem wal_demo :
    (openWalCounted none walGood).1 = 2 ∧ (openWalCounted none walGood).2.isOk = true ∧
    (openWalCounted none walBad).1 = 2 ∧ (openWal none walBad).isOk = false ∧
    (openWalCounted none walZero).1 = 3 ∧ (openWal none walZero).isOk = false ∧
    (openWalCounted none walHuge).1 = 0 ∧ (openWal none walHuge).isOk = false := by
  decide +kernel

/-! a rollback journal of 565 zero bytes with 8-byte pages: three whole page records after the
header sector and a partial fourth -/

def journalZero : FileH := ⟨565, Buf.ofList (List.replicate 565 0)⟩

theorem journal_demo :
    (Carve.carveJournalCounted default 8 journalZero).1 = 4 ∧
    (Carve.carveJournalCounted default 8 journalZero).2.isOk = true ∧
    (565 - 512) / (8 + 8) + 1 = 4 := by
  decide +kernel

/-! a leaf page whose two cells name the same overflow page -/

def row5 : CellSpec := .tableLeaf 5 [⟨1212, List.replicate 600 0xAB⟩] [5]
def L6s : PageLayout := packLayout 512 0 .tableLeaf [row4, row5] 0

def sharedTbl : Nat → Option (List Nat)
  | 5 => some page5
  | 6 => some (packBytes 512 L6s)
  | _ => none

def sharedV : VersionIf := mkV 512 sharedTbl

theorem shared_page6 : PageLaidOut 512 (packBytes 512 L6s) L6s :=
  PageCheck.pageLaidOutB_sound _ _ _ (by decide +kernel)

theorem shared_row4_valid : row4.Valid sharedV := by
  refine ⟨?_, ?_, ?_, ?_, ?_⟩
  · intro cols hc
    cases hc
    decide +kernel
  · intro r hr
    cases hr
    decide
  · intro lc hl
    cases hl
  · decide
  · exact ⟨by decide +kernel, by decide +kernel, by decide,
      [], mkV_serves 512 sharedTbl 5 _ rfl (by decide +kernel)⟩

theorem shared_row5_valid : row5.Valid sharedV := by
  refine ⟨?_, ?_, ?_, ?_, ?_⟩
  · intro cols hc
    cases hc
    decide +kernel
  · intro r hr
    cases hr
    decide
  · intro lc hl
    cases hl
  · decide
  · exact ⟨by decide +kernel, by decide +kernel, by decide,
      [], mkV_serves 512 sharedTbl 5 _ rfl (by decide +kernel)⟩

/-- both cells are accepted, each with the overflow chain [5]: the chain is read once per cell -/
theorem shared_overflow_demo : ∃ pg, getBTreeRoot sharedV 1 6 = .ok [pg] ∧
    pg.cells.map (fun c => c.overflowPages.map (·.number)) = [[5], [5]] := by
  obtain ⟨pg, h1, h2, h3⟩ := TreeParse.table_leaf_page_rows sharedV (by decide) (by decide) 6 _ L6s 0
    (mkV_serves 512 sharedTbl 6 _ rfl (by decide +kernel)) shared_page6 (by decide)
    (by
      intro c hc
      have : c = row4 ∨ c = row5 := by simpa [L6s, packLayout] using hc
      rcases this with rfl | rfl
      · exact shared_row4_valid
      · exact shared_row5_valid) rfl
  have hps : Spec.PageServed sharedV 6 L6s :=
    ⟨_, mkV_serves 512 sharedTbl 6 _ rfl (by decide +kernel), shared_page6, rfl, by
      intro c hc
      have : c = row4 ∨ c = row5 := by simpa [L6s, packLayout] using hc
      rcases this with rfl | rfl
      · exact shared_row4_valid
      · exact shared_row5_valid⟩
  refine ⟨pg, ?_, ?_⟩
  · rw [TreeParse.root_dispatch sharedV 6 L6s hps 1]
    exact TreeWalk.parseBTreeW_of_pure sharedV 1 6 _ [] [pg] h1 (by simp) (fun _ _ hm => nomatch hm)
  · have := TreeParse.elementwise_map_eq _ (fun (s : CellSpec) => s.ovfl)
      (fun (c : Cell) => c.overflowPages.map (·.number)) (fun s c h => h.overflow.symm) _ _ h2.cells
    rw [← this]
    rfl

/-! freeblocks two bytes apart: each next pointer is the size field of the previous freeblock -/

def fbPage : Buf := Buf.ofList [0, 0, 0, 0, 0, 6, 0, 8, 0, 10, 0, 12, 0, 0, 0, 0]

theorem freeblock_dense_demo :
    (freeblockWalk fbPage 65537 0 4 []).map (·.map (·.start)) = .ok [4, 6, 8, 10, 12] := by
  decide +kernel

end SqliteDissect.Proofs.CostDemo
