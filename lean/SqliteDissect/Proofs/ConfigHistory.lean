/-
Proofs for C13 at the level of a WAL history: the versions `versionHistory` returns do not depend
on `storeInMemory` (which only adds the eager census of every commit record), nor on `strict`
(relaxed format checking accepts what strict checking accepted, with the same results), and
`openWal` given the true file size is `openWal` not given a size.
-/
import SqliteDissect.Proofs.Config
import SqliteDissect.Proofs.WalHistory

namespace SqliteDissect.Proofs.ConfigHistory
open SqliteDissect SqliteDissect.Model
open SqliteDissect.Proofs.Config (bind_ok bind_mono foldlM_mono)

/-! ### the size given to the WAL file handle -/

theorem openWal_given_size (file : Buf) : openWal (some file.size) file = openWal none file := by
  unfold openWal
  cases h : file.size with
  | zero => rfl
  | succ k => rfl

/-! ### relaxed checking -/

/-- the same interface with relaxed format checking -/
def relax (v : VersionIf) : VersionIf := { v with strict := false }

theorem relax_getData (v : VersionIf) : (relax v).getData = v.getData := rfl
theorem relax_pageSize (v : VersionIf) : (relax v).pageSize = v.pageSize := rfl

theorem getBTreeRoot_relax (v : VersionIf) (frames n : Nat) (t : List BPage)
    (h : getBTreeRoot v frames n = .ok t) : getBTreeRoot (relax v) frames n = .ok t := by
  cases v with
  | mk ps vn s gd pv po =>
    cases s
    · exact h
    · exact Config.getBTreeRoot_aux ps vn gd pv po frames n t h

theorem parseMasterSchema_relax (v : VersionIf) : parseMasterSchema (relax v) = parseMasterSchema v := rfl

theorem parseFreelist_relax (v : VersionIf) (fuel n : Nat) : parseFreelist (relax v) fuel n = parseFreelist v fuel n := by
  cases v with
  | mk ps vn s gd pv po => exact Config.parseFreelist_strict ps vn false s gd pv po fuel n

theorem createPtrmapPages_relax (v : VersionIf) : createPtrmapPages (relax v) = createPtrmapPages v := by
  cases v with
  | mk ps vn s gd pv po => exact Config.createPtrmapPages_strict ps vn false s gd pv po

theorem walVersionIf_relax (s : Bool) (dbv : VersionIf) (w : Wal) (n c : Nat) (pvi pfi : List (Nat × Nat)) (u : List Nat) :
    walVersionIf false (relax dbv) w n c pvi pfi u = relax (walVersionIf s dbv w n c pvi pfi u) := rfl

theorem observedSchema_relax (ver : Version) (v : VersionIf) (frames : Nat) (r : List BPage × MasterSchema)
    (h : observedSchema ver v frames = .ok r) : observedSchema ver (relax v) frames = .ok r := by
  unfold observedSchema at h ⊢
  split
  · rename_i hm; rw [if_pos hm] at h; exact h
  · rename_i hm
    rw [if_neg hm] at h
    refine bind_mono (fun t ht => getBTreeRoot_relax v frames 1 t ht) (fun t _ h => ?_) h
    rw [parseMasterSchema_relax]
    exact h

theorem versionCensus_relax (ver : Version) (v : VersionIf) (frames : Nat) (d : List (Nat × String))
    (h : versionCensus ver v frames = .ok d) : versionCensus ver (relax v) frames = .ok d := by
  unfold versionCensus at h ⊢
  dsimp only at h ⊢
  refine bind_mono (fun r hr => observedSchema_relax ver v frames r hr) (fun r _ h => ?_) h
  refine bind_mono ?_ (fun _ _ e => e) h
  intro d' hd'
  refine foldlM_mono _ _ ?_ _ _ _ hd'
  intro s i r h
  exact bind_mono (fun t ht => getBTreeRoot_relax v frames i t ht) (fun _ _ e => e) h

/-! ### one commit record -/

/-- keeping parsed pages in memory only adds the census at the end of the constructor -/
theorem makeCommitRecord_sim (cfg : Config) (dbv : VersionIf) (w : Wal) (number : Nat) (frames : List Frame)
    (prev : Version) (lh : DbHeader) (ls : MasterSchema) (lrt : List BPage) (enc : Nat) (r : Version × VersionIf)
    (h : makeCommitRecord { cfg with storeInMemory := true } dbv w number frames prev lh ls lrt enc = .ok r) :
    makeCommitRecord { cfg with storeInMemory := false } dbv w number frames prev lh ls lrt enc = .ok r := by
  unfold makeCommitRecord at h ⊢
  dsimp only at h ⊢
  split at h
  · exact nomatch h
  rename_i h0
  rw [if_neg h0]
  split at h
  · exact nomatch h
  rename_i mx hmx
  split at h
  · exact nomatch h
  rename_i h1
  rw [if_neg h1]
  refine bind_mono (fun _ e => e) (fun x _ h => ?_) h
  obtain ⟨fd, committed, csize⟩ := x
  dsimp only at h ⊢
  split at h
  · exact nomatch h
  rename_i h2
  rw [if_neg h2]
  refine bind_mono (fun _ e => e) (fun x _ h => ?_) h
  obtain ⟨ubt, ownHdr, rootMod⟩ := x
  dsimp only at h ⊢
  split at h
  · exact nomatch h
  rename_i h3
  rw [if_neg h3]
  refine bind_mono (fun _ e => e) (fun flags _ h => ?_) h
  refine bind_mono (fun _ e => e) (fun x _ h => ?_) h
  obtain ⟨rootTree, schema, ubt'⟩ := x
  dsimp only at h ⊢
  refine bind_mono (fun _ e => e) (fun fl _ h => ?_) h
  split at h
  · exact nomatch h
  rename_i h4
  rw [if_neg h4]
  refine bind_mono (fun _ e => e) (fun pm _ h => ?_) h
  rw [if_pos rfl] at h
  obtain ⟨d, _, h⟩ := bind_ok h
  rw [if_neg (by simp)]
  exact h

/-- relaxed checking accepts the commit record strict checking accepted, with the same `Version`
and the same interface up to the flag -/
theorem makeCommitRecord_strict (cfg : Config) (dbv : VersionIf) (w : Wal) (number : Nat) (frames : List Frame)
    (prev : Version) (lh : DbHeader) (ls : MasterSchema) (lrt : List BPage) (enc : Nat) (ver : Version) (v : VersionIf)
    (h : makeCommitRecord { cfg with strict := true } dbv w number frames prev lh ls lrt enc = .ok (ver, v)) :
    makeCommitRecord { cfg with strict := false } (relax dbv) w number frames prev lh ls lrt enc
      = .ok (ver, relax v) := by
  unfold makeCommitRecord at h ⊢
  dsimp only at h ⊢
  simp only [walVersionIf_relax true, relax_getData, parseMasterSchema_relax, parseFreelist_relax,
    createPtrmapPages_relax]
  split at h
  · exact nomatch h
  rename_i h0
  rw [if_neg h0]
  split at h
  · exact nomatch h
  rename_i mx hmx
  split at h
  · exact nomatch h
  rename_i h1
  rw [if_neg h1]
  refine bind_mono (fun _ e => e) (fun x _ h => ?_) h
  obtain ⟨fd, committed, csize⟩ := x
  dsimp only at h ⊢
  split at h
  · exact nomatch h
  rename_i h2
  rw [if_neg h2]
  refine bind_mono (fun _ e => e) (fun x _ h => ?_) h
  obtain ⟨ubt, ownHdr, rootMod⟩ := x
  dsimp only at h ⊢
  split at h
  · exact nomatch h
  rename_i h3
  rw [if_neg h3]
  refine bind_mono (fun _ e => e) (fun flags _ h => ?_) h
  refine bind_mono ?_ (fun x _ h => ?_) h
  · intro x hx
    split at hx
    · rename_i hc
      rw [if_pos hc]
      exact bind_mono (fun t ht => getBTreeRoot_relax _ _ _ t ht) (fun _ _ e => e) hx
    · rename_i hc
      rw [if_neg hc]
      exact hx
  obtain ⟨rootTree, schema, ubt'⟩ := x
  dsimp only at h ⊢
  refine bind_mono (fun _ e => e) (fun fl _ h => ?_) h
  split at h
  · exact nomatch h
  rename_i h4
  rw [if_neg h4]
  refine bind_mono (fun _ e => e) (fun pm _ h => ?_) h
  split at h
  · rename_i hsim
    rw [if_pos hsim]
    obtain ⟨d, hd, h⟩ := bind_ok h
    rw [versionCensus_relax _ _ _ d hd]
    simp only [pure, Except.pure, Except.ok.injEq, Prod.mk.injEq] at h
    obtain ⟨rfl, rfl⟩ := h
    rfl
  · rename_i hsim
    rw [if_neg hsim]
    simp only [pure, Except.pure, Except.ok.injEq, Prod.mk.injEq] at h
    obtain ⟨rfl, rfl⟩ := h
    rfl

/-! ### the history -/

open SqliteDissect.Proofs.WalHistory (HSt hStep versionHistory_eq)

theorem hStep_sim (cfg : Config) (dbv : VersionIf) (w : Wal) (st st' : HSt) (g : List Frame)
    (h : hStep { cfg with storeInMemory := true } dbv w st g = .ok st') :
    hStep { cfg with storeInMemory := false } dbv w st g = .ok st' := by
  obtain ⟨vs, lh, ls, lrt, enc⟩ := st
  unfold hStep at h ⊢
  dsimp only at h ⊢
  split at h
  · exact nomatch h
  · exact bind_mono (fun r hr => makeCommitRecord_sim cfg dbv w _ g _ lh ls lrt enc r hr) (fun _ _ e => e) h

/-- **storeInMemory.**  Whatever history the in-memory configuration returns, the on-demand
configuration returns too: the same versions with the same interfaces -/
theorem history_store_in_memory_irrelevant (cfg : Config) (db : Database) (dbv : VersionIf) (wal : Option Wal)
    (vs : List (Version × VersionIf))
    (h : versionHistory { cfg with storeInMemory := true } db dbv wal = .ok vs) :
    versionHistory { cfg with storeInMemory := false } db dbv wal = .ok vs := by
  cases wal with
  | none => exact h
  | some w =>
    rw [versionHistory_eq] at h ⊢
    refine bind_mono (fun r hr => foldlM_mono _ _ (fun s i r h => hStep_sim cfg dbv w s r i h) _ _ r hr)
      (fun _ _ e => e) h

/-- the versions with relaxed interfaces -/
def relaxVs (vs : List (Version × VersionIf)) : List (Version × VersionIf) :=
  vs.map fun p => (p.1, relax p.2)

def relaxSt (st : HSt) : HSt := (relaxVs st.1, st.2)

theorem foldlM_sim {σ τ ι : Type} (f : σ → ι → Py σ) (g : τ → ι → Py τ) (φ : σ → τ)
    (hfg : ∀ s i s', f s i = .ok s' → g (φ s) i = .ok (φ s')) :
    ∀ (l : List ι) (s r : σ), l.foldlM f s = .ok r → l.foldlM g (φ s) = .ok (φ r) := by
  intro l
  induction l with
  | nil =>
    intro s r h
    simp only [List.foldlM_nil, pure, Except.pure, Except.ok.injEq] at h
    subst h; rfl
  | cons x xs ih =>
    intro s r h
    rw [List.foldlM_cons] at h ⊢
    obtain ⟨s1, hs, h⟩ := bind_ok h
    rw [hfg _ _ _ hs]
    exact ih _ _ h

theorem relaxVs_getLast? (vs : List (Version × VersionIf)) :
    (relaxVs vs).getLast? = vs.getLast?.map fun p => (p.1, relax p.2) := by
  unfold relaxVs
  rw [List.getLast?_map]

theorem hStep_strict (cfg : Config) (dbv : VersionIf) (w : Wal) (st st' : HSt) (g : List Frame)
    (h : hStep { cfg with strict := true } dbv w st g = .ok st') :
    hStep { cfg with strict := false } (relax dbv) w (relaxSt st) g = .ok (relaxSt st') := by
  obtain ⟨vs, lh, ls, lrt, enc⟩ := st
  unfold hStep at h ⊢
  unfold relaxSt
  dsimp only at h ⊢
  rw [relaxVs_getLast?]
  split at h
  · exact nomatch h
  · rename_i pv pvi hl
    rw [hl]
    dsimp only [Option.map]
    obtain ⟨⟨cv, cvi⟩, hm, h⟩ := bind_ok h
    have hlen : (relaxVs vs).length = vs.length := by unfold relaxVs; rw [List.length_map]
    rw [hlen, makeCommitRecord_strict cfg dbv w _ g pv lh ls lrt enc cv cvi hm]
    simp only [pure, Except.pure, Except.ok.injEq] at h
    subst h
    simp only [relaxVs, List.map_append, List.map_cons, List.map_nil]
    rfl

/-- **strict.**  Relaxed format checking accepts every history strict checking accepted: the same
`Version` records, the same interfaces up to the flag (the database's interface relaxed as well) -/
theorem history_strict_irrelevant (cfg : Config) (db : Database) (dbv : VersionIf) (wal : Option Wal)
    (vs : List (Version × VersionIf))
    (h : versionHistory { cfg with strict := true } db dbv wal = .ok vs) :
    versionHistory { cfg with strict := false } db (relax dbv) wal = .ok (relaxVs vs) := by
  cases wal with
  | none =>
    simp only [versionHistory, pure, Except.pure, Except.ok.injEq] at h ⊢
    subst h
    rfl
  | some w =>
    rw [versionHistory_eq] at h ⊢
    obtain ⟨r, hr, h⟩ := bind_ok h
    have := foldlM_sim (hStep { cfg with strict := true } dbv w) (hStep { cfg with strict := false } (relax dbv) w)
      relaxSt (fun s i s' hs => hStep_strict cfg dbv w s s' i hs) _ _ _ hr
    have hinit : relaxSt ([(versionOfDatabase db, dbv)], (db.hdr, db.schema, db.rootTree, db.encoding))
        = ([(versionOfDatabase db, relax dbv)], (db.hdr, db.schema, db.rootTree, db.encoding)) := rfl
    rw [hinit] at this
    rw [this]
    split at h
    · exact nomatch h
    rename_i he
    simp only [pure, Except.pure, Except.ok.injEq] at h
    subst h
    show (if ¬ (groupFrames w.frames [] []).2.isEmpty then (.error .typeError : Py _) else pure (relaxSt r).1) = _
    rw [if_neg he]
    rfl

/-- `database_strict_irrelevant` with the interface named: the relaxed database interface -/
theorem database_strict_relax (cfg : Config) (file : Buf) (db : Database) (v : VersionIf)
    (h : openDatabase { cfg with strict := true } file = .ok (db, v)) :
    openDatabase { cfg with strict := false } file = .ok (db, relax v) := by
  rw [Config.openDatabase_eq_core] at h ⊢
  exact Config.openCore_strict _ _ _ _ _ _ h

/-- `Database` + `WriteAheadLog` + `VersionHistory` from the two files -/
def historyOfFiles (cfg : Config) (dbFile walFile : Buf) : Py (List (Version × VersionIf)) := do
  let (db, dbv) ← openDatabase cfg dbFile
  let w ← openWal cfg.givenWalSize walFile
  versionHistory cfg db dbv (some w)

theorem historyOfFiles_strict (cfg : Config) (dbFile walFile : Buf) (vs : List (Version × VersionIf))
    (h : historyOfFiles { cfg with strict := true } dbFile walFile = .ok vs) :
    historyOfFiles { cfg with strict := false } dbFile walFile = .ok (relaxVs vs) := by
  unfold historyOfFiles at h ⊢
  obtain ⟨⟨db, dbv⟩, hdb, h⟩ := bind_ok h
  obtain ⟨w, hw, h⟩ := bind_ok h
  rw [database_strict_relax cfg dbFile db dbv hdb]
  show (openWal cfg.givenWalSize walFile >>= fun w => versionHistory { cfg with strict := false } db (relax dbv) (some w)) = _
  have hw' : openWal cfg.givenWalSize walFile = .ok w := hw
  rw [hw']
  exact history_strict_irrelevant cfg db dbv (some w) vs h

theorem historyOfFiles_sim (cfg : Config) (dbFile walFile : Buf) (vs : List (Version × VersionIf))
    (h : historyOfFiles { cfg with storeInMemory := true } dbFile walFile = .ok vs) :
    historyOfFiles { cfg with storeInMemory := false } dbFile walFile = .ok vs := by
  unfold historyOfFiles at h ⊢
  obtain ⟨⟨db, dbv⟩, hdb, h⟩ := bind_ok h
  obtain ⟨w, hw, h⟩ := bind_ok h
  rw [Config.database_store_in_memory_irrelevant cfg dbFile db dbv hdb]
  show (openWal cfg.givenWalSize walFile >>= fun w => versionHistory { cfg with storeInMemory := false } db dbv (some w)) = _
  have hw' : openWal cfg.givenWalSize walFile = .ok w := hw
  rw [hw']
  exact history_store_in_memory_irrelevant cfg db dbv (some w) vs h

end SqliteDissect.Proofs.ConfigHistory
