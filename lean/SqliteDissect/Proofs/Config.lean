/-
Proofs for C13: the model's results do not depend on the configuration (`strict`,
`storeInMemory`, `givenSize`).
-/
import SqliteDissect.Model.Wal
import SqliteDissect.Proofs.Layout
import SqliteDissect.Proofs.TreeWalk

namespace SqliteDissect.Proofs.Config
open SqliteDissect SqliteDissect.Model

/-! ### generic helpers -/

theorem bind_ok {ε α β : Type} {x : Except ε α} {f : α → Except ε β} {b : β}
    (h : (x >>= f) = .ok b) : ∃ a, x = .ok a ∧ f a = .ok b := by
  cases x with
  | error e => cases h
  | ok a => exact ⟨a, rfl, h⟩

theorem bind_mono {ε α β : Type} {x y : Except ε α} {f g : α → Except ε β} {b c : β}
    (hx : ∀ a, x = .ok a → y = .ok a)
    (hf : ∀ a, x = .ok a → f a = .ok b → g a = .ok c)
    (h : (x >>= f) = .ok b) : (y >>= g) = .ok c := by
  obtain ⟨a, ha, hfa⟩ := bind_ok h
  rw [hx a ha]
  exact hf a ha hfa

/-- if the relaxed step agrees with the strict step whenever the strict one succeeds, so do
the folds -/
theorem foldlM_mono {ε σ ι : Type} (f g : σ → ι → Except ε σ)
    (hfg : ∀ s i r, f s i = .ok r → g s i = .ok r) :
    ∀ (l : List ι) (init r : σ), l.foldlM f init = .ok r → l.foldlM g init = .ok r := by
  intro l
  induction l with
  | nil => intro init r h; simpa using h
  | cons x xs ih =>
    intro init r h
    rw [List.foldlM_cons] at h ⊢
    obtain ⟨s, hs, h⟩ := bind_ok h
    rw [hfg _ _ _ hs]
    exact ih _ _ h

/-! ### functions that take the version interface but never read `strict` -/

section
variable (ps vn : Nat) (s1 s2 : Bool) (gd : Nat → Nat → Option Nat → Py Buf) (pv po : Nat → Py Nat)

theorem parseOverflowPage_strict :
    parseOverflowPage ⟨ps, vn, s1, gd, pv, po⟩ = parseOverflowPage ⟨ps, vn, s2, gd, pv, po⟩ := rfl

theorem overflowChainLoop_strict (fuel : Nat) (cur : OvflPage) (rem : Int) (acc : List OvflPage) :
    overflowChainLoop ⟨ps, vn, s1, gd, pv, po⟩ fuel cur rem acc
      = overflowChainLoop ⟨ps, vn, s2, gd, pv, po⟩ fuel cur rem acc := by
  induction fuel generalizing cur rem acc with
  | zero => rfl
  | succ n ih =>
    simp only [overflowChainLoop, parseOverflowPage_strict ps vn s1 s2 gd pv po, ih]

theorem parseOverflowChain_strict :
    parseOverflowChain ⟨ps, vn, s1, gd, pv, po⟩ = parseOverflowChain ⟨ps, vn, s2, gd, pv, po⟩ := by
  funext first ob
  simp only [parseOverflowChain, parseOverflowPage_strict ps vn s1 s2 gd pv po,
    overflowChainLoop_strict ps vn s1 s2 gd pv po]

theorem parsePayloadCell_strict :
    parsePayloadCell ⟨ps, vn, s1, gd, pv, po⟩ = parsePayloadCell ⟨ps, vn, s2, gd, pv, po⟩ := by
  funext kind page index start lc rowid p pl
  simp only [parsePayloadCell, parseOverflowChain_strict ps vn s1 s2 gd pv po]

theorem parseCellLocal_strict :
    parseCellLocal ⟨ps, vn, s1, gd, pv, po⟩ = parseCellLocal ⟨ps, vn, s2, gd, pv, po⟩ := by
  funext kind page index start
  cases kind <;> simp only [parseCellLocal, parsePayloadCell_strict ps vn s1 s2 gd pv po]

end


section
variable (ps vn : Nat) (s1 s2 : Bool) (gd : Nat → Nat → Option Nat → Py Buf) (pv po : Nat → Py Nat)

theorem parseFreelist_strict (fuel number : Nat) :
    parseFreelist ⟨ps, vn, s1, gd, pv, po⟩ fuel number = parseFreelist ⟨ps, vn, s2, gd, pv, po⟩ fuel number := by
  induction fuel generalizing number with
  | zero => rfl
  | succ n ih => simp only [parseFreelist, ih]

theorem parsePtrmapPage_strict :
    parsePtrmapPage ⟨ps, vn, s1, gd, pv, po⟩ = parsePtrmapPage ⟨ps, vn, s2, gd, pv, po⟩ := rfl

theorem createPtrmapPagesLoop_strict (D E fuel p n : Nat) (acc : List PtrmapPage) :
    createPtrmapPagesLoop ⟨ps, vn, s1, gd, pv, po⟩ D E fuel p n acc
      = createPtrmapPagesLoop ⟨ps, vn, s2, gd, pv, po⟩ D E fuel p n acc := by
  induction fuel generalizing p n acc with
  | zero => rfl
  | succ k ih => simp only [createPtrmapPagesLoop, ih, parsePtrmapPage_strict ps vn s1 s2 gd pv po]

theorem createPtrmapPages_strict :
    createPtrmapPages ⟨ps, vn, s1, gd, pv, po⟩ = createPtrmapPages ⟨ps, vn, s2, gd, pv, po⟩ := by
  funext D
  simp only [createPtrmapPages, createPtrmapPagesLoop_strict ps vn s1 s2 gd pv po]

theorem parseMasterSchema_strict :
    parseMasterSchema ⟨ps, vn, s1, gd, pv, po⟩ = parseMasterSchema ⟨ps, vn, s2, gd, pv, po⟩ := rfl
end

/-! ### the b-tree parser -/

theorem tree_aux (ps vn : Nat) (gd : Nat → Nat → Option Nat → Py Buf) (pv po : Nat → Py Nat) :
    ∀ (fuel number : Nat) (cls : PageType) (t : List BPage),
      parseBTree ⟨ps, vn, true, gd, pv, po⟩ fuel number cls = .ok t →
      parseBTree ⟨ps, vn, false, gd, pv, po⟩ fuel number cls = .ok t := by
  intro fuel
  induction fuel using Nat.strongRecOn with
  | _ fuel ih =>
    intro number cls t h
    cases fuel with
    | zero => rw [parseBTree] at h; cases h
    | succ fuel =>
      rw [parseBTree] at h ⊢
      dsimp only at h ⊢
      refine bind_mono (fun _ e => e) (fun pv1 _ h => ?_) h
      refine bind_mono (fun _ e => e) (fun off _ h => ?_) h
      refine bind_mono (fun _ e => e) (fun page _ h => ?_) h
      refine bind_mono (fun _ e => e) (fun ptype _ h => ?_) h
      refine bind_mono (fun _ e => e) (fun hdr _ h => ?_) h
      split at h
      · cases h
      rename_i hc
      rw [if_neg hc]
      refine bind_mono ?_ (fun st _ h => ?_) h
      · intro st hst
        rw [parseCellLocal_strict ps vn false true gd pv po]
        refine foldlM_mono _ _ ?_ _ _ _ hst
        rintro ⟨cells, subs, total⟩ idx r h
        dsimp only at h ⊢
        refine bind_mono (fun _ e => e) (fun cellOff _ h => ?_) h
        refine bind_mono (fun _ e => e) (fun c _ h => ?_) h
        refine bind_mono ?_ (fun _ _ e => e) h
        intro sub hsub
        split at hsub
        · refine bind_mono (fun _ e => e) (fun fb _ h => ?_) hsub
          split at h
          · split at h
            · cases h
            · rename_i hlt
              rw [if_neg hlt]
              exact ih _ (by simp only [cellDescentFrames]; omega) _ _ _ h
          · cases h
        · exact hsub
      · obtain ⟨cells, subs, cellTotal⟩ := st
        dsimp only at h ⊢
        refine bind_mono (fun _ e => e) (fun fbs _ h => ?_) h
        refine bind_mono (fun L hL => Layout.strict_irrelevant _ _ _ _ _ _ _ L hL) (fun lay _ h => ?_) h
        split at h
        · rename_i hint
          rw [if_pos hint]
          split at h
          · cases h
          · split at h
            · cases h
            · rename_i hrm
              rw [if_neg hrm]
              refine bind_mono (fun _ e => e) (fun fb _ h => ?_) h
              split at h
              · split at h
                · cases h
                · rename_i hlt
                  rw [if_neg hlt]
                  refine bind_mono (fun rsub hr => ih _ (by simp only [rightMostDescentFrames]; omega) _ _ _ hr) (fun _ _ e => e) h
              · cases h
        · rename_i hint
          rw [if_neg hint]
          exact h

theorem tree_strict_irrelevant (v : VersionIf) (fuel number : Nat) (cls : PageType) (t : List BPage)
    (h : parseBTree { v with strict := true } fuel number cls = .ok t) :
    parseBTree { v with strict := false } fuel number cls = .ok t := by
  cases v with
  | mk ps vn s gd pv po => exact tree_aux ps vn gd pv po fuel number cls t h

/-- the same for the walk that refuses a page reached twice: through the reference parse -/
theorem treeW_aux (ps vn : Nat) (gd : Nat → Nat → Option Nat → Py Buf) (pv po : Nat → Py Nat)
    (fuel number : Nat) (cls : PageType) (seen : List Nat) (t : List BPage)
    (h : parseBTreeW ⟨ps, vn, true, gd, pv, po⟩ fuel number cls seen = .ok t) :
    parseBTreeW ⟨ps, vn, false, gd, pv, po⟩ fuel number cls seen = .ok t := by
  obtain ⟨hp, hnd, hdis⟩ := TreeWalk.parseBTreeW_ok _ _ _ _ _ _ h
  exact TreeWalk.parseBTreeW_of_pure _ _ _ _ _ _ (tree_aux ps vn gd pv po _ _ _ _ hp) hnd hdis

theorem treeW_strict_irrelevant (v : VersionIf) (fuel number : Nat) (cls : PageType) (seen : List Nat)
    (t : List BPage) (h : parseBTreeW { v with strict := true } fuel number cls seen = .ok t) :
    parseBTreeW { v with strict := false } fuel number cls seen = .ok t := by
  cases v with
  | mk ps vn s gd pv po => exact treeW_aux ps vn gd pv po fuel number cls seen t h

theorem getBTreeRoot_aux (ps vn : Nat) (gd : Nat → Nat → Option Nat → Py Buf) (pv po : Nat → Py Nat)
    (frames number : Nat) (t : List BPage)
    (h : getBTreeRoot ⟨ps, vn, true, gd, pv, po⟩ frames number = .ok t) :
    getBTreeRoot ⟨ps, vn, false, gd, pv, po⟩ frames number = .ok t := by
  unfold getBTreeRoot at h ⊢
  dsimp only at h ⊢
  refine bind_mono (fun _ e => e) (fun t1 _ h => ?_) h
  refine bind_mono (fun _ e => e) (fun t2 _ h => ?_) h
  split at h
  · cases h
  rename_i hsz
  rw [if_neg hsz]
  split at h
  · rename_i hb; rw [if_pos hb]; exact treeW_aux ps vn gd pv po _ _ _ _ _ h
  rename_i hb; rw [if_neg hb]
  split at h
  · rename_i hb; rw [if_pos hb]; exact treeW_aux ps vn gd pv po _ _ _ _ _ h
  rename_i hb; rw [if_neg hb]
  split at h
  · rename_i hb; rw [if_pos hb]; exact treeW_aux ps vn gd pv po _ _ _ _ _ h
  rename_i hb; rw [if_neg hb]
  split at h
  · rename_i hb; rw [if_pos hb]; exact treeW_aux ps vn gd pv po _ _ _ _ _ h
  · cases h

/-! ### the database constructor -/

theorem pagesCensus_aux (db : Database) (ps vn : Nat) (gd : Nat → Nat → Option Nat → Py Buf) (pv po : Nat → Py Nat)
    (frames : Nat) (d : List (Nat × String))
    (h : pagesCensus db ⟨ps, vn, true, gd, pv, po⟩ frames = .ok d) :
    pagesCensus db ⟨ps, vn, false, gd, pv, po⟩ frames = .ok d := by
  unfold pagesCensus at h ⊢
  dsimp only at h ⊢
  refine bind_mono ?_ (fun _ _ e => e) h
  intro d' hd'
  refine foldlM_mono _ _ ?_ _ _ _ hd'
  intro s i r h
  refine bind_mono (fun t ht => getBTreeRoot_aux ps vn gd pv po _ _ t ht) (fun _ _ e => e) h

/-- the file size `FileHandle` believes -/
def fsizeOf (gs : Option Nat) (sz : Nat) : Nat :=
  match gs with
  | some 0 => sz
  | some n => n
  | none => sz

/-- `openDatabase` with the three configuration inputs it reads made explicit -/
def openCore (strict sim : Bool) (frames : Nat) (file : Buf) (fsize : Nat) : Py (Database × VersionIf) := do
  if fsize > Generated.LOCK_BYTE_PAGE_START_OFFSET then .error .notImplemented
  else
    let hdr ← parseDbHeader (file.slice 0 Generated.SQLITE_DATABASE_HEADER_LENGTH)
    let fh : FileH := ⟨fsize, file⟩
    let ps := hdr.pageSize
    let dsize ← (if hdr.sizeInPages = 0 then
        if hdr.sqliteVersion ≥ Generated.SQLITE_3_7_0_VERSION_NUMBER then (.error .parseError : Py DbSize)
        else pure ⟨fsize, ps⟩
      else if hdr.versionValidFor ≠ hdr.changeCounter then pure ⟨fsize, ps⟩
      else if hdr.sizeInPages * ps ≥ fsize + ps then .error .parseError
      else pure ⟨hdr.sizeInPages, 1⟩)
    let v : VersionIf :=
      { pageSize := ps, versionNumber := 0, strict := strict,
        getData := dbGetData ps dsize fh,
        pageVersion := fun p => if 1 ≤ p ∧ p ≤ dsize.floor then .ok 0 else .error .keyError,
        pageOffset := fun p => if p < 1 ∨ p > dsize.floor then .error .valueError else .ok ((p - 1) * ps) }
    let updated := (List.range dsize.floor).map (· + 1)
    let fl ← (if hdr.firstFreelistTrunk ≠ 0 then parseFreelist v frames hdr.firstFreelistTrunk else pure [])
    let (updated, flNums, observed) ← fl.foldlM (fun (st : List Nat × List Nat × Nat) t => do
        let (u, nums, obs) := st
        let u ← listRemove u t.number
        pure (u, nums ++ [t.number] ++ t.leaves, obs + 1 + t.leaves.length)) (updated, [], 0)
    if observed ≠ hdr.freelistPages then .error .parseError
    else
      let pm ← (if hdr.largestRoot ≠ 0 then
          if ¬ dsize.exact then (.error .outsideModel : Py (List PtrmapPage))
          else createPtrmapPages v dsize.floor
        else pure [])
      let updated ← pm.foldlM (fun u pg => listRemove u pg.number) updated
      let rootTree ← getBTreeRoot v frames 1
      let ms ← parseMasterSchema v hdr.textEncoding rootTree
      let updated ← ms.pages.foldlM (fun u pn => listRemove u pn.1) updated
      do
        let db : Database := ⟨hdr, ps, dsize, hdr.textEncoding, fl, flNums, pm, rootTree, ms, updated⟩
        if sim then do
          let _ ← pagesCensus db v frames
          pure (db, v)
        else pure (db, v)

theorem openDatabase_eq_core (cfg : Config) (file : Buf) :
    openDatabase cfg file
      = openCore cfg.strict cfg.storeInMemory cfg.frames file (fsizeOf cfg.givenSize file.size) := rfl

theorem openCore_strict (sim : Bool) (frames : Nat) (file : Buf) (fsize : Nat) (db : Database) (v : VersionIf)
    (h : openCore true sim frames file fsize = .ok (db, v)) :
    openCore false sim frames file fsize = .ok (db, { v with strict := false }) := by
  unfold openCore at h ⊢
  dsimp only at h ⊢
  split at h
  · cases h
  rename_i hsz
  rw [if_neg hsz]
  refine bind_mono (fun _ e => e) (fun hdr _ h => ?_) h
  refine bind_mono (fun _ e => e) (fun dsize _ h => ?_) h
  rw [parseFreelist_strict _ _ false true]
  refine bind_mono (fun _ e => e) (fun fl _ h => ?_) h
  refine bind_mono (fun _ e => e) (fun st _ h => ?_) h
  split at h
  · cases h
  rename_i hobs
  rw [if_neg hobs]
  rw [createPtrmapPages_strict _ _ false true]
  refine bind_mono (fun _ e => e) (fun pm _ h => ?_) h
  refine bind_mono (fun _ e => e) (fun upd _ h => ?_) h
  refine bind_mono (fun t ht => getBTreeRoot_aux _ _ _ _ _ _ _ t ht) (fun rootTree _ h => ?_) h
  rw [parseMasterSchema_strict _ _ false true]
  refine bind_mono (fun _ e => e) (fun ms _ h => ?_) h
  refine bind_mono (fun _ e => e) (fun upd2 _ h => ?_) h
  split at h
  · rename_i hsim
    rw [if_pos hsim]
    obtain ⟨d, hd, h⟩ := bind_ok h
    rw [pagesCensus_aux _ _ _ _ _ _ _ d hd]
    cases h
    rfl
  · rename_i hsim
    rw [if_neg hsim]
    cases h
    rfl

theorem database_strict_irrelevant (cfg : Config) (file : Buf) (db : Database) (v : VersionIf)
    (h : openDatabase { cfg with strict := true } file = .ok (db, v)) :
    ∃ v', openDatabase { cfg with strict := false } file = .ok (db, v') := by
  rw [openDatabase_eq_core] at h ⊢
  exact ⟨_, openCore_strict _ _ _ _ _ _ h⟩

theorem openCore_sim (strict : Bool) (frames : Nat) (file : Buf) (fsize : Nat) (db : Database) (v : VersionIf)
    (h : openCore strict true frames file fsize = .ok (db, v)) :
    openCore strict false frames file fsize = .ok (db, v) := by
  unfold openCore at h ⊢
  dsimp only at h ⊢
  split at h
  · cases h
  rename_i hsz
  rw [if_neg hsz]
  refine bind_mono (fun _ e => e) (fun hdr _ h => ?_) h
  refine bind_mono (fun _ e => e) (fun dsize _ h => ?_) h
  refine bind_mono (fun _ e => e) (fun fl _ h => ?_) h
  refine bind_mono (fun _ e => e) (fun st _ h => ?_) h
  split at h
  · cases h
  rename_i hobs
  rw [if_neg hobs]
  refine bind_mono (fun _ e => e) (fun pm _ h => ?_) h
  refine bind_mono (fun _ e => e) (fun upd _ h => ?_) h
  refine bind_mono (fun _ e => e) (fun rootTree _ h => ?_) h
  refine bind_mono (fun _ e => e) (fun ms _ h => ?_) h
  refine bind_mono (fun _ e => e) (fun upd2 _ h => ?_) h
  rw [if_pos rfl] at h
  obtain ⟨d, _, h⟩ := bind_ok h
  exact h

theorem database_store_in_memory_irrelevant (cfg : Config) (file : Buf) (db : Database) (v : VersionIf)
    (h : openDatabase { cfg with storeInMemory := true } file = .ok (db, v)) :
    openDatabase { cfg with storeInMemory := false } file = .ok (db, v) := by
  rw [openDatabase_eq_core] at h ⊢
  exact openCore_sim _ _ _ _ _ _ h

theorem database_given_size_irrelevant (cfg : Config) (file : Buf) (_hs : 0 < file.size) :
    openDatabase { cfg with givenSize := some file.size } file
      = openDatabase { cfg with givenSize := none } file := by
  rw [openDatabase_eq_core, openDatabase_eq_core]
  have : fsizeOf (some file.size) file.size = fsizeOf none file.size := by
    unfold fsizeOf
    split <;> simp_all
  show openCore _ _ _ _ (fsizeOf (some file.size) file.size) = openCore _ _ _ _ (fsizeOf none file.size)
  rw [this]

theorem leaf_cells_sublist (t : List BPage) :
    (leafCells t).Sublist (t.flatMap (·.cells)) := by
  unfold leafCells
  induction t with
  | nil => simp
  | cons p ps ih =>
    simp only [List.flatMap_cons]
    refine List.Sublist.append ?_ ih
    split
    · exact List.nil_sublist _
    · exact List.Sublist.refl _

end SqliteDissect.Proofs.Config
