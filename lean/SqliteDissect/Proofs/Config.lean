import SqliteDissect.Model.Wal
namespace SqliteDissect.Proofs.Config
end SqliteDissect.Proofs.Config
