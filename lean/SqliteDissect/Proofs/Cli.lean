import SqliteDissect.Model.Cli

namespace SqliteDissect.Proofs.Cli
open SqliteDissect.Model.Cli

/-! ### selection and per-format plans -/

theorem selected_filter (S : List Str) (es : List Entry) (hS : S ≠ []) :
    selected S es = (selected [] es).filter (fun e => S.contains e.name) := by
  unfold selected
  rw [List.filter_filter]
  apply List.filter_congr
  intro e _
  cases S with
  | nil => exact absurd rfl hS
  | cons a t => simp [passesFilter, Bool.and_comm]

theorem itemFor_tables (f : Fmt) (o : Opts) (r : Ready) (S : List Str) (e : Entry)
    (h : S.contains e.name = true) :
    itemFor f { o with tables := S } r e = itemFor f { o with tables := [] } r e := by
  have h' : e.name ∈ S := by simpa using h
  simp [itemFor, carved, hasSignature, passesFilter, h']

theorem tables_restrict_fmt (f : Fmt) (o : Opts) (r : Ready) (es : List Entry) (S : List Str) (hS : S ≠ []) :
    planFmt f { o with tables := S } r es
      = (planFmt f { o with tables := [] } r es).filter (fun it => S.contains it.entry) := by
  unfold planFmt
  simp only []
  rw [selected_filter S es hS]
  induction selected [] es with
  | nil => simp
  | cons e t ih =>
    by_cases h : S.contains e.name = true
    · have h2 : S.contains (itemFor f { o with tables := [] } r e).entry = true := by simpa [itemFor] using h
      simp only [List.filter_cons, h, List.map_cons, h2, if_true]
      rw [ih, itemFor_tables f o r S e h]
    · have h2 : ¬ S.contains (itemFor f { o with tables := [] } r e).entry = true := by simpa [itemFor] using h
      simp only [List.filter_cons, h, List.map_cons, h2]
      exact ih

theorem tables_restrict (o : Opts) (r : Ready) (es : List Entry) (S : List Str) (hS : S ≠ []) :
    plan { o with tables := S } r es
      = (plan { o with tables := [] } r es).filter (fun it => S.contains it.entry) := by
  unfold plan rowFormats
  simp only [List.flatMap_cons, List.flatMap_nil, List.append_nil, List.filter_append]
  have key : ∀ f, (if r.exportTypes.contains f = true then planFmt f { o with tables := S } r es else [])
      = List.filter (fun it => S.contains it.entry)
          (if r.exportTypes.contains f = true then planFmt f { o with tables := [] } r es else []) := by
    intro f
    split <;> simp [tables_restrict_fmt f o r es S hS]
  rw [key, key, key, key]

/-! ### carving only adds -/

theorem carve_validate (o : Opts) (i : Input) (w : World) (hf : o.carveFreelists = false) :
    validate { o with carve := true } i w = validate { o with carve := false } i w := by
  have h1 : optionChecks { o with carve := true } = optionChecks { o with carve := false } := by
    simp [optionChecks, hf]
  unfold validate
  rw [h1]
  rfl

theorem carve_only_adds_fmt (f : Fmt) (o : Opts) (r : Ready) (es : List Entry) (hc : o.carve = false) :
    (planFmt f { o with carve := true } r es).map Item.dropCarve = planFmt f o r es := by
  unfold planFmt
  simp only [List.map_map]
  apply List.map_congr_left
  intro e _
  simp [itemFor, carved, hasSignature, Item.dropCarve, hc]

theorem carve_only_adds (o : Opts) (r : Ready) (es : List Entry) (hc : o.carve = false) :
    (plan { o with carve := true } r es).map Item.dropCarve = plan o r es := by
  unfold plan rowFormats
  simp only [List.flatMap_cons, List.flatMap_nil, List.append_nil, List.map_append]
  have key : ∀ f, List.map Item.dropCarve
        (if r.exportTypes.contains f = true then planFmt f { o with carve := true } r es else [])
      = (if r.exportTypes.contains f = true then planFmt f o r es else []) := by
    intro f
    split <;> simp [carve_only_adds_fmt f o r es hc]
  rw [key, key, key, key]

theorem journal_plan_needs_carve (o : Opts) (r : Ready) (ex : List Str) (es : List Entry) (hc : o.carve = false) :
    journalPlan o r ex es = [] := by
  simp [journalPlan, hc]

/-! ### formats are independent -/

theorem planFmt_fmt (f : Fmt) (o : Opts) (r : Ready) (es : List Entry) :
    ∀ it ∈ planFmt f o r es, it.fmt = f := by
  intro it h
  unfold planFmt at h
  rw [List.mem_map] at h
  obtain ⟨e, _, rfl⟩ := h
  rfl

theorem filter_planFmt (f g : Fmt) (o : Opts) (r : Ready) (es : List Entry) :
    (planFmt g o r es).filter (fun it => it.fmt = f) = if g = f then planFmt g o r es else [] := by
  by_cases h : g = f
  · subst h
    simp only [if_true]
    rw [List.filter_eq_self]
    intro it hit
    simp [planFmt_fmt g o r es it hit]
  · simp only [h, if_false]
    rw [List.filter_eq_nil_iff]
    intro it hit
    simp [planFmt_fmt g o r es it hit, h]

theorem formats_independent (o : Opts) (r : Ready) (es : List Entry) (f : Fmt) (hf : f ∈ rowFormats) :
    (plan o r es).filter (fun it => it.fmt = f)
      = if r.exportTypes.contains f then planFmt f o r es else [] := by
  unfold plan rowFormats
  simp only [List.flatMap_cons, List.flatMap_nil, List.append_nil, List.filter_append]
  have key : ∀ g, List.filter (fun it => decide (it.fmt = f))
        (if r.exportTypes.contains g = true then planFmt g o r es else [])
      = if g = f then (if r.exportTypes.contains g = true then planFmt g o r es else []) else [] := by
    intro g
    split
    · exact filter_planFmt f g o r es
    · simp
  rw [key, key, key, key]
  simp [rowFormats] at hf
  rcases hf with rfl | rfl | rfl | rfl <;> simp

theorem planFmt_ignores_exports (f : Fmt) (o : Opts) (r : Ready) (es : List Entry) (x : List Fmt) :
    planFmt f { o with exports := x } r es = planFmt f o r es := rfl

/-! ### journal selection -/

theorem no_journal_names (o : Opts) (p : Str) (w : World) :
    journalNames { o with noJournal := true } p w = .ok ([], []) := by
  simp [journalNames]

/-- a world with no journal file next to the database -/
def DbOnly (p : Str) (w : World) : Prop :=
  w.pathExists (p ++ walPostfix) = false ∧ w.pathExists (p ++ journalPostfix) = false

theorem discovery_dbonly (o : Opts) (p : Str) (w : World) (h : DbOnly p w)
    (hw : o.wal = []) (hr : o.rollbackJournal = []) (hn : o.noJournal = false) :
    journalNames o p w = .ok ([], []) := by
  simp [journalNames, hw, hr, hn, h.1, h.2]

theorem inputChecks_no_journal_db_only (o : Opts) (i : Input) (w : World) (h : DbOnly i.sqlitePath w) :
    inputChecks { o with noJournal := true } i w
      = inputChecks { o with noJournal := false, wal := [], rollbackJournal := [] } i w := by
  unfold inputChecks
  rw [no_journal_names, discovery_dbonly _ i.sqlitePath w h rfl rfl rfl]

theorem no_journal_is_db_only (o : Opts) (i : Input) (w : World) (h : DbOnly i.sqlitePath w) :
    validate { o with noJournal := true } i w
      = validate { o with noJournal := false, wal := [], rollbackJournal := [] } i w := by
  unfold validate
  rw [inputChecks_no_journal_db_only o i w h]
  rfl

theorem inputChecks_no_journal_ok (o : Opts) (i : Input) (w : World) (wn rn : Str) (wo ro : Bool)
    (h : inputChecks { o with noJournal := true } i w = .ok wn rn wo ro) :
    wn = [] ∧ rn = [] ∧ wo = false ∧ ro = false := by
  unfold inputChecks at h
  rw [no_journal_names] at h
  simp only [] at h
  repeat' (split at h)
  all_goals (first | (cases h; done) | (cases h; simp))

theorem no_journal_ready (o : Opts) (i : Input) (w : World) (r : Ready) (eff : List Effect)
    (h : validate { o with noJournal := true } i w = .ready r eff) :
    r.walName = [] ∧ r.rjName = [] ∧ r.walOpened = false ∧ r.rjOpened = false := by
  unfold validate at h
  split at h
  · cases h
  · split at h
    · cases h
    · cases h
    · rename_i wn rn wo ro hic
      have := inputChecks_no_journal_ok o i w wn rn wo ro hic
      split at h
      · cases h
      · cases h
        exact this

/-! ### what has happened when a run is refused -/

theorem logEffects_mem (o : Opts) (e : Effect) (h : e ∈ logEffects o) : e = .logFile o.logFile := by
  unfold logEffects at h
  split at h <;> simp at h
  exact h

/-- the sub-directory `main` creates when several input files are processed -/
def subDir (o : Opts) (i : Input) : Str :=
  pyJoin o.directory (replaceChar '.' '-' (filePrefixOf o i) ++ ['-'] ++ i.uuid)

theorem setupDirectory_effects (o : Opts) (i : Input) (w : World) (d : Str) (effD : List Effect)
    (h : setupDirectory o i w (filePrefixOf o i) = .ok (d, effD)) :
    ∀ e ∈ effD, (e = .mkdir o.directory ∧ w.pathExists o.directory = false)
              ∨ (e = .mkdir (subDir o i) ∧ i.multi = true) := by
  unfold setupDirectory at h
  split at h
  · cases h; simp
  · simp only [] at h
    split at h
    · cases h
    · split at h
      · split at h
        · cases h
          intro e he
          rename_i hm _
          simp only [List.mem_append] at he
          rcases he with he | he
          · split at he <;> simp at he
            left; rename_i hx; exact ⟨he, by simpa using hx⟩
          · split at he <;> simp at he
            right; exact ⟨by simpa [subDir] using he, hm⟩
        · cases h
      · cases h
        intro e he
        split at he <;> simp at he
        left; rename_i hx; exact ⟨he, by simpa using hx⟩

/-- every effect of every outcome (refusal, exit(0) or go-ahead) of the validation phase is the creation of
the log file, of the output directory, or of the per-file sub-directory — no other file is touched -/
theorem validation_effects_bounded (o : Opts) (i : Input) (w : World) :
    ∀ e ∈ (validate o i w).effects,
      e = .logFile o.logFile ∨ (e = .mkdir o.directory ∧ w.pathExists o.directory = false)
        ∨ (e = .mkdir (subDir o i) ∧ i.multi = true) := by
  unfold validate
  split
  · exact fun e he => Or.inl (logEffects_mem o e he)
  · split
    · exact fun e he => Or.inl (logEffects_mem o e he)
    · exact fun e he => Or.inl (logEffects_mem o e he)
    · split
      · intro e he
        simp only [Outcome.effects, List.mem_append] at he
        rcases he with he | he
        · exact Or.inl (logEffects_mem o e he)
        · split at he <;> simp at he
          rename_i hc
          exact Or.inr (Or.inl ⟨he, by simpa using hc.2⟩)
      · rename_i outDir effD hsd
        intro e he
        simp only [Outcome.effects, List.mem_append] at he
        rcases he with he | he
        · exact Or.inl (logEffects_mem o e he)
        · exact Or.inr (setupDirectory_effects o i w outDir effD hsd e he)

/-- a refusal — for the options, the input, the journals, or because the output directory cannot be made —
has created nothing but (possibly) the log file; the one exception is the operating system failing to make the
per-file *sub*-directory after the output directory itself was made -/
theorem refusal_effects (o : Opts) (i : Input) (w : World) (r : Refusal) (eff : List Effect)
    (h : validate o i w = .refuse r eff) (hr : r ≠ .cannotCreateSubDirectory) :
    ∀ e ∈ eff, e = .logFile o.logFile := by
  unfold validate at h
  split at h
  · cases h; exact fun e he => logEffects_mem o e he
  · split at h
    · cases h; exact fun e he => logEffects_mem o e he
    · cases h
    · split at h
      · cases h
        intro e he
        simp only [List.mem_append] at he
        rcases he with he | he
        · exact logEffects_mem o e he
        · split at he
          · rename_i hc; exact absurd hc.1 hr
          · cases he
      · cases h

/-- an exit(0) ("nothing to parse") has created nothing but the log file -/
theorem exit0_effects (o : Opts) (i : Input) (w : World) (x : Exit0) (eff : List Effect)
    (h : validate o i w = .exit0 x eff) : ∀ e ∈ eff, e = .logFile o.logFile := by
  unfold validate at h
  split at h
  · cases h
  · split at h
    · cases h
    · cases h; exact fun e he => logEffects_mem o e he
    · split at h <;> cases h

/-- the excluded case does create the output directory first -/
theorem subdirectory_failure_after_mkdir (o : Opts) (i : Input) (w : World) (eff : List Effect)
    (h : validate o i w = .refuse .cannotCreateSubDirectory eff) (hd : w.pathExists o.directory = false) :
    Effect.mkdir o.directory ∈ eff := by
  unfold validate at h
  split at h
  · rename_i r hoc
    cases h
    exfalso
    unfold optionChecks at hoc
    repeat' (split at hoc)
    all_goals cases hoc
  · split at h
    · rename_i r hic
      cases h
      exfalso
      unfold inputChecks at hic
      split at hic
      · cases hic
      · split at hic
        · rename_i r' hj
          cases hic
          unfold journalNames at hj
          repeat' (split at hj)
          all_goals cases hj
        · simp only [] at hic
          repeat' (split at hic)
          all_goals cases hic
    · cases h
    · split at h
      · cases h
        simp [hd]
      · cases h

/-- the prefix is the option when given, else the base name of the input -/
theorem ready_prefix (o : Opts) (i : Input) (w : World) (r : Ready) (eff : List Effect)
    (h : validate o i w = .ready r eff) : r.filePrefix = filePrefixOf o i := by
  unfold validate at h
  split at h
  · cases h
  · split at h
    · cases h
    · cases h
    · split at h
      · cases h
      · cases h; rfl

theorem prefix_default (o : Opts) (i : Input) (w : World) (r : Ready) (eff : List Effect)
    (hp : o.filePrefix = []) (h : validate o i w = .ready r eff) : r.filePrefix = baseName i.sqlitePath := by
  rw [ready_prefix o i w r eff h]
  simp [filePrefixOf, hp]

/-- what `ready` records about the directory: it is `[]` exactly when no directory was named -/
theorem ready_outDir (o : Opts) (i : Input) (w : World) (r : Ready) (eff : List Effect)
    (h : validate o i w = .ready r eff) :
    (o.directory = [] ∧ r.outDir = []) ∨ (o.directory ≠ [] ∧ (r.outDir = o.directory ∨ r.outDir = subDir o i)) := by
  unfold validate at h
  split at h
  · cases h
  · split at h
    · cases h
    · cases h
    · split at h
      · cases h
      · rename_i outDir effD hsd
        cases h
        simp only []
        unfold setupDirectory at hsd
        split at hsd
        · cases hsd; left; rename_i hd; exact ⟨hd, rfl⟩
        · rename_i hd
          right
          refine ⟨hd, ?_⟩
          simp only [] at hsd
          repeat' (split at hsd)
          all_goals (first | (cases hsd; done) | (cases hsd; first | (left; rfl) | (right; simp [subDir])))

theorem optionChecks_none_prefix (o : Opts) (h : optionChecks o = none) : '/' ∉ o.filePrefix := by
  unfold optionChecks at h
  repeat' (split at h)
  all_goals (first | (cases h; done) | skip)
  rename_i hx
  intro hm
  apply hx
  refine ⟨?_, hm⟩
  intro hnil
  rw [hnil] at hm
  cases hm

theorem ready_optionChecks (o : Opts) (i : Input) (w : World) (r : Ready) (eff : List Effect)
    (h : validate o i w = .ready r eff) : optionChecks o = none := by
  unfold validate at h
  split at h
  · cases h
  · assumption

/-! ### every written file lies directly beneath the output directory (when the names carry no '/') -/

theorem noSep_append (a b : Str) : NoSep (a ++ b) ↔ NoSep a ∧ NoSep b := by
  unfold NoSep
  simp [List.mem_append, not_or]

theorem noSep_replaceChar (x y : Char) (s : Str) (hy : y ≠ '/') (h : NoSep s) : NoSep (replaceChar x y s) := by
  unfold NoSep replaceChar at *
  intro hm
  rw [List.mem_map] at hm
  obtain ⟨c, hc, hcv⟩ := hm
  split at hcv
  · exact hy hcv
  · subst hcv; exact h hc

theorem noSep_dropLastSeg (p acc : Str) (h : NoSep acc) : NoSep (dropLastSeg p acc) := by
  induction p generalizing acc with
  | nil => simpa [dropLastSeg] using h
  | cons c cs ih =>
    unfold dropLastSeg
    split
    · exact ih [] (by simp [NoSep])
    · rename_i hc
      apply ih
      rw [noSep_append]
      refine ⟨h, ?_⟩
      simp only [NoSep, List.mem_singleton]
      exact fun hx => hc hx.symm

theorem noSep_baseName (p : Str) : NoSep (baseName p) :=
  noSep_dropLastSeg p [] (by simp [NoSep])

theorem noSep_replace_sep (s : Str) : NoSep (replaceChar '/' '_' s) := by
  unfold NoSep replaceChar
  intro hm
  rw [List.mem_map] at hm
  obtain ⟨c, _, hcv⟩ := hm
  split at hcv
  · cases hcv
  · rename_i hc; exact hc hcv

theorem csvLeaf_noSep (pfx name : Str) (hp : NoSep pfx) : NoSep (csvLeaf pfx name) := by
  unfold csvLeaf csvName
  rw [noSep_append, noSep_append, noSep_append]
  exact ⟨⟨⟨hp, by decide⟩, noSep_replace_sep _⟩, by decide⟩

theorem csvLeaf_ne_nil (pfx name : Str) : csvLeaf pfx name ≠ [] := by
  unfold csvLeaf
  intro h
  have := congrArg List.length h
  simp at this

theorem under_sepCat (d leaf : Str) (h : NoSep leaf) (hne : leaf ≠ []) : Under d (sepCat d leaf) :=
  ⟨leaf, h, hne, Or.inl rfl⟩

theorem under_pyJoin (d leaf : Str) (hd : d ≠ []) (h : NoSep leaf) (hne : leaf ≠ []) : Under d (pyJoin d leaf) := by
  unfold pyJoin
  have hh : leaf.head? ≠ some '/' := by
    cases leaf with
    | nil => exact absurd rfl hne
    | cons c cs =>
      simp only [List.head?_cons, ne_eq, Option.some.injEq]
      intro hc
      exact h (by simp [hc])
  simp only [hh, if_false, hd, false_or]
  split
  · rename_i hl
    exact ⟨leaf, h, hne, Or.inr ⟨hl, rfl⟩⟩
  · exact ⟨leaf, h, hne, Or.inl rfl⟩

theorem suffix_ne_nil (a b : Str) (hb : b ≠ []) : a ++ b ≠ [] := by
  intro h
  have := congrArg List.length h
  simp at this
  exact hb this.2

theorem fileFor_under (f : Fmt) (r : Ready) (name : Str) (hd : r.outDir ≠ []) (hp : NoSep r.filePrefix)
    (hf : fileFor f r name ≠ []) : Under r.outDir (fileFor f r name) := by
  cases f with
  | text =>
    simp only [fileFor, hd, if_false]
    exact under_sepCat _ _ ((noSep_append _ _).2 ⟨hp, by decide⟩) (suffix_ne_nil _ _ (by decide))
  | csv => exact under_pyJoin _ _ hd (csvLeaf_noSep _ _ hp) (csvLeaf_ne_nil _ _)
  | sqlite => exact under_sepCat _ _ ((noSep_append _ _).2 ⟨hp, by decide⟩) (suffix_ne_nil _ _ (by decide))
  | xlsx => exact under_sepCat _ _ ((noSep_append _ _).2 ⟨hp, by decide⟩) (suffix_ne_nil _ _ (by decide))
  | case => exact absurd rfl hf

theorem plan_files (o : Opts) (r : Ready) (es : List Entry) (it : Item) (h : it ∈ plan o r es) :
    ∃ f e, e ∈ es ∧ it.file = fileFor f r e.name := by
  unfold plan rowFormats at h
  simp only [List.flatMap_cons, List.flatMap_nil, List.append_nil, List.mem_append] at h
  have key : ∀ f, it ∈ (if r.exportTypes.contains f = true then planFmt f o r es else []) →
      ∃ f e, e ∈ es ∧ it.file = fileFor f r e.name := by
    intro f hf
    split at hf
    · unfold planFmt selected at hf
      rw [List.mem_map] at hf
      obtain ⟨e, he, rfl⟩ := hf
      exact ⟨f, e, (List.mem_filter.1 he).1, rfl⟩
    · cases hf
  rcases h with h | h | h | h <;> exact key _ h

/-- with a prefix free of '/', everything a run writes is a direct child of the output directory (or, for
`case.json`, of the directory the user named), whatever the entry names are -/
theorem written_files_under (o : Opts) (r : Ready) (ex : List Str) (es : List Entry)
    (hd : r.outDir ≠ []) (hdir : o.directory ≠ []) (hp : NoSep r.filePrefix) :
    ∀ f ∈ writtenFiles o r ex es, Under r.outDir f ∨ Under o.directory f := by
  intro f hf
  unfold writtenFiles at hf
  simp only [List.mem_append, List.mem_map, List.mem_filter] at hf
  rcases hf with ((⟨x, hx, rfl⟩ | ⟨it, ⟨hit, hw⟩, rfl⟩) | ⟨it, hit, rfl⟩) | hc
  · left
    unfold formatFiles at hx
    rw [List.mem_map] at hx
    obtain ⟨g, hg, rfl⟩ := hx
    have hg2 := (List.mem_filter.1 hg).2
    simp only [Bool.and_eq_true, decide_eq_true_eq] at hg2
    exact fileFor_under g r [] hd hp hg2.2
  · obtain ⟨g, e, he, hfile⟩ := plan_files o r es it hit
    left
    rw [hfile]
    apply fileFor_under g r e.name hd hp
    rw [← hfile]
    simp at hw
    exact hw.2
  · left
    unfold journalPlan at hit
    split at hit
    · rw [List.mem_map] at hit
      obtain ⟨e, he, rfl⟩ := hit
      exact under_pyJoin _ _ hd (csvLeaf_noSep _ _ (noSep_baseName _)) (csvLeaf_ne_nil _ _)
    · cases hit
  · right
    cases hcf : caseFile o r with
    | none => rw [hcf] at hc; cases hc
    | some cf =>
      rw [hcf] at hc
      simp only [List.mem_singleton] at hc
      unfold caseFile at hcf
      split at hcf
      · cases hcf
        rw [hc]
        exact under_pyJoin o.directory "case.json".toList hdir (by decide) (by decide)
      · cases hcf

/-- the prefix `main` settles on never contains '/': a given prefix with one is refused, the default is a base
name -/
theorem ready_prefix_noSep (o : Opts) (i : Input) (w : World) (r : Ready) (eff : List Effect)
    (h : validate o i w = .ready r eff) : NoSep r.filePrefix := by
  rw [ready_prefix o i w r eff h]
  unfold filePrefixOf
  split
  · exact optionChecks_none_prefix o (ready_optionChecks o i w r eff h)
  · exact noSep_baseName _

/-- every file written by a run that passed validation lies directly beneath the output directory (case.json:
beneath the directory the user named), for every prefix, every entry name and every journal name -/
theorem written_files_under_ready (o : Opts) (i : Input) (w : World) (r : Ready) (eff : List Effect)
    (ex : List Str) (es : List Entry) (h : validate o i w = .ready r eff) (hd : r.outDir ≠ []) :
    ∀ f ∈ writtenFiles o r ex es, Under r.outDir f ∨ Under o.directory f := by
  have hdir : o.directory ≠ [] := by
    rcases ready_outDir o i w r eff h with ⟨_, h2⟩ | ⟨h1, _⟩
    · exact absurd h2 hd
    · exact h1
  exact written_files_under o r ex es hd hdir (ready_prefix_noSep o i w r eff h)

theorem ready_exportTypes (o : Opts) (i : Input) (w : World) (r : Ready) (eff : List Effect)
    (h : validate o i w = .ready r eff) : r.exportTypes = exportTypes o.exports := by
  unfold validate at h
  split at h
  · cases h
  · split at h
    · cases h
    · cases h
    · split at h
      · cases h
      · cases h; rfl

theorem exportTypes_without_directory (o : Opts) (h : optionChecks o = none) (hd : o.directory = []) :
    exportTypes o.exports = [.text] := by
  unfold optionChecks at h
  split at h
  · cases h
  · split at h
    · cases h
    · rename_i hn
      have hnd : needsDirectory o.exports = false := by
        cases hx : needsDirectory o.exports
        · rfl
        · exact absurd ⟨hx, hd⟩ hn
      unfold exportTypes
      cases hex : o.exports with
      | nil => simp
      | cons a t =>
        cases t with
        | nil =>
          rw [hex] at hnd
          simp [needsDirectory] at hnd
          simp [hnd]
        | cons b t' =>
          rw [hex] at hnd
          simp [needsDirectory] at hnd

/-- without `--directory` a run writes no file at all (text goes to the console) -/
theorem no_directory_no_files (o : Opts) (i : Input) (w : World) (r : Ready) (eff : List Effect)
    (ex : List Str) (es : List Entry) (h : validate o i w = .ready r eff) (hd : r.outDir = []) :
    writtenFiles o r ex es = [] := by
  have hdir : o.directory = [] := by
    rcases ready_outDir o i w r eff h with ⟨h1, _⟩ | ⟨h1, h2⟩
    · exact h1
    · rcases h2 with h2 | h2
      · rw [h2] at hd; exact absurd hd h1
      · exfalso
        rw [h2] at hd
        unfold subDir pyJoin at hd
        split at hd
        · rename_i hh
          rw [hd] at hh
          cases hh
        · split at hd
          · have := congrArg List.length hd; simp at this
          · have := congrArg List.length hd; simp at this
  have het : r.exportTypes = [.text] := by
    rw [ready_exportTypes o i w r eff h]
    exact exportTypes_without_directory o (ready_optionChecks o i w r eff h) hdir
  unfold writtenFiles formatFiles journalPlan caseFile plan rowFormats
  simp [het, hd, fileFor, planFmt, itemFor]

end SqliteDissect.Proofs.Cli
