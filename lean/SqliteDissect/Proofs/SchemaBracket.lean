/-
Helper lemmas for Properties/C07.lean, third part: `[bracket]` names (repair 417a203: the name regex
is `^\[([^\]]*)\]`, a newline inside the brackets included; repair d4f87a6: the name is `group(1)`,
the text between the brackets).
-/
import SqliteDissect.Proofs.SchemaQuoted

namespace SqliteDissect.Proofs.Schema
open SqliteDissect SqliteDissect.Model.Schema SqliteDissect.Spec.Ddl

/-! ### the regex `^\[([^\]]*)\]` -/

/-- the match ends at the first "]" -/
theorem bracketMatchLen_first (r : Str) : ∀ n : Str, ']' ∉ n → bracketMatchLen (n ++ ']' :: r) = some (n.length + 2)
  | [], _ => by simp [bracketMatchLen]
  | c :: cs, h => by
      have hc : (c == ']') = false := by simpa using fun e : c = ']' => h (by simp [e])
      have ih := bracketMatchLen_first r cs (fun hm => h (by simp [hm]))
      simp [bracketMatchLen, hc, ih]

/-- without a "]" there is no match -/
theorem bracketMatchLen_none : ∀ n : Str, ']' ∉ n → bracketMatchLen n = none
  | [], _ => rfl
  | c :: cs, h => by
      have hc : (c == ']') = false := by simpa using fun e : c = ']' => h (by simp [e])
      simp [bracketMatchLen, hc, bracketMatchLen_none cs (fun hm => h (by simp [hm]))]

/-! ### the name readers on a bracket name -/

/-- The name of `[n]` (n without "]") is n. -/
theorem quotedName_bracket (n r : Str) (hn : ']' ∉ n) :
    quotedName ('[' :: n ++ ']' :: r) = some (some (n, n.length + 2)) := by
  have hm := bracketMatchLen_first r n hn
  have ht : (n ++ ']' :: r).take (n.length + 2 - 2) = n := by
    rw [show n.length + 2 - 2 = n.length by omega]
    exact List.take_left' rfl
  simp only [List.cons_append, quotedName, beq_self_eq_true, if_true, hm, Option.map_some, ht]

theorem drop_bracket (n r : Str) : ('[' :: n ++ ']' :: r).drop (n.length + 2) = r := by
  have : '[' :: n ++ ']' :: r = ('[' :: n ++ [']']) ++ r := by simp
  rw [this]
  exact List.drop_left' (by simp)

theorem rowNameAndRest_bracket (n r : Str) (hn : ']' ∉ n) :
    rowNameAndRest ('[' :: n ++ ']' :: r) = .ok (n, r) := by
  have h := quotedName_bracket n r hn
  have hd := drop_bracket n r
  simp only [List.cons_append] at h hd ⊢
  rw [rowNameAndRest]
  simp only [h, hd]

theorem columnNameAndRest_bracket (n r : Str) (hn : ']' ∉ n) :
    columnNameAndRest ('[' :: n ++ ']' :: r) = .ok (n, strip r) := by
  have h := quotedName_bracket n r hn
  have hd := drop_bracket n r
  simp only [List.cons_append] at h hd ⊢
  rw [columnNameAndRest]
  simp only [h, hd]

/-! ### `ColumnDefinition` on bracket names -/

/-- `[n]`, any non-empty run of whitespace, one-word type -/
theorem parseColumn_bracket_ws (n : Str) (hs : QuotedSafe n) (hn : ']' ∉ n) (ws t : Str)
    (ht : Ident t) (htne : t ≠ []) (hws : ∀ w ∈ ws, isSpace w = true) (hwne : ws ≠ [])
    (hkw : beginsWithKeyword Spec.Ddl.columnKeywords t = false) :
    parseColumn ('[' :: n ++ [']'] ++ ws ++ t) =
      .ok { name := n, derived := some (upper t), dataType := getDataType (upper t),
            affinity := Spec.typeAffinity t, hasConstraints := false } := by
  have hspo : isSpace '[' = false := by decide
  have hspc : isSpace ']' = false := by decide
  have haff := affinity_eq_spec t []
    ⟨fun hm => ident_ne '(' '(' (ht '(' hm) (by decide) rfl, Or.inl rfl, by decide⟩
  simp only [List.append_nil, declaredAffinity] at haff
  have hna : noAdj isSpace ('[' :: n) = true := noAdj_cons _ _ _ hspo hs.no_ws_run
  have e : '[' :: n ++ [']'] ++ ws ++ t = ('[' :: n) ++ (']' :: (ws ++ t)) := by simp
  have h1 : stripColumnComments (('[' :: n ++ [']'] ++ ws ++ t).length + 1) ('[' :: n ++ [']'] ++ ws ++ t) =
      .ok ('[' :: n ++ [']'] ++ ws ++ t) := by
    rw [e]
    apply stripCC_safe _ _ _ _ (by simp) _ _ (by omega)
    · intro hm
      simp only [List.mem_cons] at hm
      rcases hm with hm | hm
      · exact absurd hm (by decide)
      · exact hs.no_slash hm
    · exact noAdj_cons _ _ _ (by decide) hs.no_dashdash
    · intro c hc
      simp only [List.mem_cons, List.mem_append] at hc
      rcases hc with rfl | hc | hc
      · exact ⟨by decide, by decide⟩
      · exact space_not_comment c (hws c hc)
      · exact ⟨ident_ne c '/' (ht c hc) (by decide), ident_ne c '-' (ht c hc) (by decide)⟩
  have hstrip : strip ('[' :: n ++ [']'] ++ ws ++ t) = '[' :: n ++ [']'] ++ ws ++ t := by
    have hl := List.dropLast_concat_getLast htne
    apply strip_ends ('[' :: n ++ [']'] ++ ws ++ t) '[' (t.getLast htne) (n ++ [']'] ++ ws ++ t)
      ('[' :: n ++ [']'] ++ ws ++ t.dropLast)
    · simp
    · rw [List.append_assoc ('[' :: n ++ [']'] ++ ws), hl]
    · exact hspo
    · exact ident_not_space _ (ht _ (List.getLast_mem htne))
  have hsep := collapse_sep [] ws t (fun c hc => by simp at hc) hws hwne ht htne
  simp only [List.nil_append, collapse] at hsep
  have hcollapse : collapse isSpace ('[' :: n ++ [']'] ++ ws ++ t) = '[' :: n ++ ']' :: sepOf ws :: t := by
    unfold collapse
    rw [e, collapseGo_noAdj isSpace ']' (ws ++ t) hspc _ hna, collapseGo]
    simp only [hspc, Bool.false_eq_true, if_false, hsep]
  have hsepsp := sepOf_space ws hwne hws
  have hname : columnNameAndRest ('[' :: n ++ ']' :: sepOf ws :: t) = .ok (n, t) := by
    rw [columnNameAndRest_bracket n (sepOf ws :: t) hn, strip_cons_space _ _ hsepsp, strip_word t ht]
  simp only [parseColumn, h1, bind, Except.bind, hstrip, hcollapse, hname,
    segmentLoop_word t ht htne hkw t.length, haff]

/-- `[n]` without a type -/
theorem parseColumn_bracket_bare (n : Str) (hs : QuotedSafe n) (hn : ']' ∉ n) :
    parseColumn ('[' :: n ++ [']']) =
      .ok { name := n, derived := none, dataType := dtNotSpecified, affinity := .blob,
            hasConstraints := false } := by
  have hspo : isSpace '[' = false := by decide
  have hspc : isSpace ']' = false := by decide
  have hna : noAdj isSpace ('[' :: n) = true := noAdj_cons _ _ _ hspo hs.no_ws_run
  have e : '[' :: n ++ [']'] = ('[' :: n) ++ [']'] := by simp
  have h1 : stripColumnComments (('[' :: n ++ [']']).length + 1) ('[' :: n ++ [']']) = .ok ('[' :: n ++ [']']) := by
    rw [e]
    apply stripCC_safe _ _ _ _ (by simp) _ _ (by omega)
    · intro hm
      simp only [List.mem_cons] at hm
      rcases hm with hm | hm
      · exact absurd hm (by decide)
      · exact hs.no_slash hm
    · exact noAdj_cons _ _ _ (by decide) hs.no_dashdash
    · intro c hc
      simp only [List.mem_cons, List.not_mem_nil, or_false] at hc
      subst hc
      exact ⟨by decide, by decide⟩
  have hstrip : strip ('[' :: n ++ [']']) = '[' :: n ++ [']'] :=
    strip_ends ('[' :: n ++ [']']) '[' ']' (n ++ [']']) ('[' :: n) (by simp) (by simp) hspo hspc
  have hcollapse : collapse isSpace ('[' :: n ++ [']']) = '[' :: n ++ [']'] := by
    unfold collapse
    rw [e, collapseGo_noAdj isSpace ']' [] hspc _ hna]
    simp [collapseGo, hspc]
  have hname : columnNameAndRest ('[' :: n ++ [']']) = .ok (n, []) := by
    have := columnNameAndRest_bracket n [] hn
    simpa [strip, lstrip, rstrip] using this
  simp only [parseColumn, h1, bind, Except.bind, hstrip, hcollapse, hname, segmentLoop_end]
  rfl

/-- the statement used by Properties/C07 -/
theorem parseColumn_bracketed (d : ColDef) (hn : ']' ∉ d.name) (hname : QuotedSafe d.name)
    (hty : ∀ t, d.type = some t → isIdent t = true ∧ beginsWithKeyword columnKeywords t = false)
    (ws : Str) (hwne : ws ≠ []) (hws : ∀ w ∈ ws, isSpace w = true) :
    ∃ col, parseColumn ('[' :: d.name ++ [']'] ++ (match d.type with | none => [] | some t => ws ++ t)) = .ok col ∧
      col.name = d.name ∧ col.affinity = d.affinity := by
  obtain ⟨name, type⟩ := d
  cases type with
  | none =>
      refine ⟨_, by simpa using parseColumn_bracket_bare name hname hn, rfl, rfl⟩
  | some t =>
      obtain ⟨ht, hkw⟩ := hty t rfl
      simp only [isIdent, Bool.and_eq_true, Bool.not_eq_true', List.all_eq_true] at ht
      obtain ⟨htne, htid⟩ := ht
      have htne' : t ≠ [] := by intro e; subst e; simp at htne
      have := parseColumn_bracket_ws name hname hn ws t htid htne' hws hwne hkw
      refine ⟨_, by simpa [List.append_assoc] using this, rfl, ?_⟩
      simp [ColDef.affinity, Spec.columnAffinity, htne']

/-! ### what is still not true for bracket names -/

/-- the former witnesses of C07-18 (repaired by d4f87a6): `[[a]` is `[a`, `[a[]` is `a[`, `[[]` is `[` -/
theorem bracket_edge_kept :
    (parseColumn ['[', '[', 'a', ']', ' ', 'I', 'N', 'T']).toOption.map (·.name) = some ['[', 'a'] ∧
    (parseColumn ['[', 'a', '[', ']', ' ', 'I', 'N', 'T']).toOption.map (·.name) = some ['a', '['] ∧
    (parseColumn ['[', '[', ']']).toOption.map (·.name) = some ['['] := by
  exact ⟨by decide +kernel, by decide +kernel, by decide +kernel⟩

/-- open finding C07-09 again: the column `[a/b]` is rejected (ValueError from the comment stripper) -/
theorem bracket_slash_rejected : errorOf (parseColumn ('[' :: nameSlash ++ [']'])) = some .valueError := by
  decide +kernel

/-- open finding C07-13 again: the column `[a  b]` is reported as `a b` -/
theorem bracket_two_spaces_renamed :
    (parseColumn ('[' :: nameTwoSpaces ++ [']'])).toOption.map (·.name) = some ['a', ' ', 'b'] := by
  decide +kernel

theorem bracket_counterexample :
    ¬ ∀ (n : Str), ']' ∉ n → n ≠ [] → ∃ col, parseColumn ('[' :: n ++ [']']) = .ok col ∧ col.name = n := by
  intro h
  obtain ⟨col, h1, _⟩ := h nameSlash (by decide) (by decide)
  have h3 := bracket_slash_rejected
  rw [h1] at h3
  cases h3

theorem bracket_counterexample_whitespace :
    ¬ ∀ (n : Str), ']' ∉ n → '/' ∉ n → '-' ∉ n → ∃ col, parseColumn ('[' :: n ++ [']']) = .ok col ∧ col.name = n := by
  intro h
  obtain ⟨col, h1, h2⟩ := h nameTwoSpaces (by decide) (by decide) (by decide)
  have h3 := bracket_two_spaces_renamed
  rw [h1] at h3
  simp only [Except.toOption, Option.map_some, Option.some.injEq] at h3
  rw [h2] at h3
  exact absurd h3 (by decide)

end SqliteDissect.Proofs.Schema
