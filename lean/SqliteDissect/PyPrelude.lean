/-
Meaning of the Python operations that occur in the functions translated by
`harness/translate/pyfun.py` (→ `Generated/PyFun.lean`).  Hand-written, import-free apart from
`Py`/`Bytes`; everything here is TRUSTED as "what Python does" (it is small on purpose, and
`harness/translate/pyfun.py --selftest` runs each definition against the interpreter on a grid).

Conventions of the generated code
* a Python `int` is an `Int`; a `bool` is a `Bool`; a `bytes` parameter that is only *read* is a `Buf`; a slice of
  it, a `bytearray` that is *built* (`insert`, `+`) and a `bytes` constant are `List Nat`; a `str` is a `List Char`;
  a `struct.unpack(">d")` double is its 64-bit pattern (`Nat`); md5 is the identity; a value whose Python type
  depends on the path (`None` / int / float / bytes) is a `PyVal`; an attribute that is `None` on some paths and
  a byte string on the others is an `Option`; a list built by `append` is a `List`; a member of one of the
  `Enum([...])` tables of constants.py is the string that names it (what `Enum.__getattr__` returns);
* a Python `float` only arises from `int / int` followed by `+ int`/`- int`; it is carried as the exact
  fraction `PyRat` (IEEE rounding is NOT modelled: the identification is exact whenever the operands
  are below 2^53 in absolute value, DESIGN.md §4.1 — the one arithmetic fact trusted here);
* every operation that can raise returns `Py _`; operations that cannot raise for the literal operand
  the source gives (`// 2`, `% 2`, `<< 7`, `/ 255`) are emitted in their pure form;
* a fuelled `while` loop that runs out of fuel yields `.error .outsideModel` (not a Python exception).
-/
import SqliteDissect.Py
import SqliteDissect.Bytes

namespace SqliteDissect

/-- An uninhabited proposition: when the translator cannot produce a function (a construct outside its
subset, a function that moved, …) it emits `example : TranslatorFailed "<why>" := by assumption`, so that
the build of `Generated/PyFun.lean` — and with it every proof obligation of `Properties/GenFun.lean` —
fails with the reason in the log instead of leaving a stale model behind. -/
inductive TranslatorFailed (msg : String) : Prop

/-! ### bit operations on arbitrary-precision two's-complement integers -/

/-- Python `a & b` (`-(n+1)` is `~n`) -/
def pyAnd : Int → Int → Int
  | .ofNat m, .ofNat n => ((m &&& n : Nat) : Int)
  | .ofNat m, .negSucc n => ((m - (m &&& n) : Nat) : Int)        -- m & ~n
  | .negSucc m, .ofNat n => ((n - (m &&& n) : Nat) : Int)        -- ~m & n
  | .negSucc m, .negSucc n => .negSucc (m ||| n)                 -- ~m & ~n = ~(m | n)

/-- Python `a | b` -/
def pyOr : Int → Int → Int
  | .ofNat m, .ofNat n => ((m ||| n : Nat) : Int)
  | .ofNat m, .negSucc n => .negSucc (n - (m &&& n))             -- m | ~n = ~(n & ~m)
  | .negSucc m, .ofNat n => .negSucc (m - (m &&& n))             -- ~m | n = ~(m & ~n)
  | .negSucc m, .negSucc n => .negSucc (m &&& n)                 -- ~m | ~n = ~(m & n)

/-- Python `a << k` for a literal `k ≥ 0` -/
def pyShlNat (a : Int) (k : Nat) : Int := a * 2 ^ k

/-- Python `a >> k` for a literal `k ≥ 0` (floor) -/
def pyShrNat (a : Int) (k : Nat) : Int := a >>> k

/-- Python `a << k`: `ValueError: negative shift count` -/
def pyShl (a k : Int) : Py Int :=
  if k < 0 then .error .valueError else .ok (pyShlNat a k.toNat)

/-- Python `a >> k` -/
def pyShr (a k : Int) : Py Int :=
  if k < 0 then .error .valueError else .ok (pyShrNat a k.toNat)

/-! ### division -/

/-- Python `a // b` (floor; `ZeroDivisionError`) -/
def pyFloorDiv (a b : Int) : Py Int :=
  if b = 0 then .error .zeroDivision else .ok (Int.fdiv a b)

/-- Python `a % b` (result has the sign of `b`; `ZeroDivisionError`) -/
def pyMod (a b : Int) : Py Int :=
  if b = 0 then .error .zeroDivision else .ok (Int.fmod a b)

/-- a float obtained from integers by one true division and integer offsets, as an exact fraction -/
structure PyRat where
  num : Int
  den : Int
  deriving Repr, DecidableEq

/-- Python `a / b` on integers, divisor a non-zero literal -/
def pyTrueDivLit (a b : Int) : PyRat := ⟨a, b⟩

/-- Python `a / b` on integers -/
def pyTrueDiv (a b : Int) : Py PyRat :=
  if b = 0 then .error .zeroDivision else .ok ⟨a, b⟩

/-- `q + c`, `q - c` for an integer `c` -/
def PyRat.addInt (q : PyRat) (c : Int) : PyRat := ⟨q.num + c * q.den, q.den⟩
def PyRat.subInt (q : PyRat) (c : Int) : PyRat := ⟨q.num - c * q.den, q.den⟩

/-- Python `int(x)` of a float: truncation toward zero -/
def pyIntOfRat (q : PyRat) : Int := Int.tdiv q.num q.den

/-- a float that is *returned* where the other branches return integers: identified with the
integer of the same value; a non-integral value leaves the modelled fragment -/
def pyFloatAsInt (q : PyRat) : Py Int :=
  if q.den ≠ 0 ∧ q.num % q.den = 0 then .ok (q.num / q.den) else .error .outsideModel

/-! ### slices of `bytes`/`bytearray` -/

/-- one bound of `b[lo:hi]`: negative bounds count from the end, everything is clamped to `[0, len]` -/
def pySliceIdx (len : Nat) (x : Int) : Nat :=
  if x < 0 then (x + len).toNat else min x.toNat len

/-- Python `ord(b[lo:hi])`: the byte when the slice has exactly one element, otherwise
`TypeError: ord() expected a character, but string of length n found` -/
def pyOrdSlice (b : Buf) (lo hi : Int) : Py Int :=
  let l := pySliceIdx b.size lo
  let h := pySliceIdx b.size hi
  if h - l = 1 then .ok (b.rd l : Nat) else .error .typeError

/-- `len(b)` -/
def pyLenBuf (b : Buf) : Int := b.size

/-- Python `b[lo:hi]` as a new byte string (possibly short or empty; never raises) -/
def pySliceBuf (b : Buf) (lo hi : Int) : List Nat :=
  let l := pySliceIdx b.size lo
  let h := pySliceIdx b.size hi
  (List.range (h - l)).map fun i => b.rd (l + i)

/-! ### struct.unpack of one big-endian field, md5, the all-zeros check -/

/-- big-endian value of a byte string -/
def pyBE (l : List Nat) : Nat := l.foldl (fun acc x => acc * 256 + x) 0

/-- `struct.unpack(">b" | ">B" | ">h" | ">H" | ">i" | ">I" | ">q" | ">Q", data)[0]`: `n` bytes, two's complement
when `signed`; `struct.error` unless `data` has exactly `n` bytes -/
def pyUnpackBE (signed : Bool) (n : Nat) (data : List Nat) : Py Int :=
  if data.length = n then
    let u := pyBE data
    if signed ∧ u ≥ 2 ^ (8 * n - 1) then .ok ((u : Int) - ((2 ^ (8 * n) : Nat) : Int)) else .ok (u : Nat)
  else .error .structError

/-- little-endian value of a byte string -/
def pyLE (l : List Nat) : Nat := l.foldr (fun x acc => x + 256 * acc) 0

/-- `struct.unpack("<b" | "<B" | "<h" | "<H" | "<i" | "<I" | "<q" | "<Q", data)[0]`: as `pyUnpackBE`, least
significant byte first -/
def pyUnpackLE (signed : Bool) (n : Nat) (data : List Nat) : Py Int :=
  if data.length = n then
    let u := pyLE data
    if signed ∧ u ≥ 2 ^ (8 * n - 1) then .ok ((u : Int) - ((2 ^ (8 * n) : Nat) : Int)) else .ok (u : Nat)
  else .error .structError

/-- `struct.unpack(">d", data)[0]`: the IEEE double is carried as its 64-bit pattern (the conversion is trusted) -/
def pyUnpackDouble (data : List Nat) : Py Nat :=
  if data.length = 8 then .ok (pyBE data) else .error .structError

/-- `get_md5_hash(data)`: modelled as the identity on the bytes (md5 is not modelled; what matters to the
callers is that equal inputs give equal digests) -/
def pyMd5 (data : List Nat) : List Nat := data

/-- `re.compile("^0{n}$").match(hexlify(data).decode())` as a truth value: the hex string has exactly `n`
characters and all of them are `0`.  (The hex string is carried as the bytes it spells.) -/
def pyZerosHexMatch (n : Nat) (data : List Nat) : Bool :=
  data.length * 2 == n && data.all (· == 0)

/-- a Python value whose type depends on the path taken (`get_record_content`'s second result) -/
inductive PyVal where
  | none
  | int (i : Int)
  | float64 (bits : Nat)
  | bytes (l : List Nat)
  deriving Repr, DecidableEq, Inhabited

/-! ### bytearrays that are built -/

/-- `len(byte_array)` -/
def pyLenBytes (l : List Nat) : Int := l.length

/-- `byte_array.insert(0, v)`: `ValueError: byte must be in range(0, 256)` -/
def pyInsert0 (l : List Nat) (v : Int) : Py (List Nat) :=
  if 0 ≤ v ∧ v < 256 then .ok (v.toNat :: l) else .error .valueError

/-- `struct.pack("B", v)`: `struct.error` outside 0..255 -/
def pyPackB (v : Int) : Py (List Nat) :=
  if 0 ≤ v ∧ v < 256 then .ok [v.toNat] else .error .structError

/-- `byte_array[-1]`: `IndexError` on an empty array -/
def pyLastByte (l : List Nat) : Py Int :=
  match l.getLast? with
  | some x => .ok (x : Nat)
  | none => .error .indexError

/-- `byte_array[:-1]` -/
def pyDropLast (l : List Nat) : List Nat := l.dropLast

/-! ### lists that are built (`x = []`, `x.append(e)`) and read by a literal index -/

/-- `l[i]` for a literal `i ≥ 0`: `IndexError` past the end -/
def pyListGet {α : Type} (l : List α) (i : Nat) : Py α :=
  match l[i]? with
  | some x => .ok x
  | none => .error .indexError

/-! ### strings -/

/-- `str(i)` / `f"{i}"` for an integer -/
def pyStrInt (i : Int) : List Char :=
  if i < 0 then '-' :: Nat.toDigits 10 i.natAbs else Nat.toDigits 10 i.toNat

/-- `binascii.unhexlify(s)`: `binascii.Error` (a `ValueError`) on odd length or a non-hex digit -/
def pyUnhexlify (s : List Char) : Py (List Nat) :=
  match parseHexList s with
  | some l => .ok l
  | none => .error .valueError

end SqliteDissect
