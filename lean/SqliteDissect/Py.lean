/-
Python value / exception conventions shared by every model file.

`PyErr` enumerates Python exception *classes* at the granularity the callers in
sqlite_dissect distinguish (see DESIGN.md §4.1).  Model functions return
`Except PyErr α`; a theorem "never fails" is a statement that the result is `.ok`.
-/

namespace SqliteDissect

inductive PyErr where
  | parseError        -- any sqlite_dissect.exception.* (SqliteError subclasses)
  | valueError
  | eofError
  | keyError
  | indexError
  | typeError
  | structError
  | notImplemented
  | recursionError
  | unicodeError
  | osError
  | attributeError
  | zeroDivision
  | overflowError
  | runtimeError
  | outsideModel      -- not a Python class: the input leaves the modelled fragment (reported, never compared)
  deriving DecidableEq, Repr, Inhabited

def PyErr.name : PyErr → String
  | .parseError => "parseError"
  | .valueError => "valueError"
  | .eofError => "eofError"
  | .keyError => "keyError"
  | .indexError => "indexError"
  | .typeError => "typeError"
  | .structError => "structError"
  | .notImplemented => "notImplemented"
  | .recursionError => "recursionError"
  | .unicodeError => "unicodeError"
  | .osError => "osError"
  | .attributeError => "attributeError"
  | .zeroDivision => "zeroDivision"
  | .overflowError => "overflowError"
  | .runtimeError => "runtimeError"
  | .outsideModel => "outsideModel"

abbrev Py (α : Type) := Except PyErr α

def Py.isOk {α : Type} : Py α → Bool
  | .ok _ => true
  | .error _ => false

/-- `List.foldlM` in `Py` that also returns the number of steps started (the failing step
included): a step counter that survives the exception.  Erasing it gives `List.foldlM`
(Proofs/Cost.lean `foldlMCounted_snd`). -/
def foldlMCounted {σ ι : Type} (f : σ → ι → Py σ) : σ → List ι → Nat × Py σ
  | s, [] => (0, .ok s)
  | s, i :: is =>
    match f s i with
    | .error e => (1, .error e)
    | .ok s' => ((foldlMCounted f s' is).1 + 1, (foldlMCounted f s' is).2)

/-- Python's `int(a / b)` for non-negative integers `a`, `b > 0` *when the float quotient is
exact enough*: the models use floor division and the theorems carry the side condition
(`a < 2^53`), see DESIGN.md §4.1. -/
def pyIntTrueDiv (a b : Nat) : Nat := a / b

end SqliteDissect
