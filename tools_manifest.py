#!/usr/bin/env python3
"""Regenerates MANIFEST.json from the table below (kept in one place so it stays valid)."""
import json

T = 'Lean 4 refinement / invariant proof over hand-written executable model; differential correspondence (db.dump / vh.dump line protocol); SQLite as oracle; constants translator'
NOTE = "Trusted: Lean kernel (axioms propext, Classical.choice, Quot.sound only), Spec.* as the statement of SQLite's format, the correspondence harness and sdmodel code generation, SQLite 3.40.1 as oracle. "

CLAIMED = {
    "C15": dict(
        text="Kernel-checked Lean 4 theorems: the model of decode_varint/encode_varint/decode_varint_in_reverse/"
             "get_record_content/get_content_size/calculate_body_content_size equals the SQLite varint and serial-type "
             "specification for every input (no size bound); model tied to /repo on every run by differential "
             "correspondence over all 1-2 byte strings, all width boundaries and random 64-bit values, AND by translation: "
             "decode_varint, encode_varint, decode_varint_in_reverse, get_content_size, get_serial_type_signature, calculate_expected_overflow "
             "are regenerated from the Python source on every run (harness/translate/pyfun.py) and proved equal to the model for all arguments (Properties/GenFun).",
        design="§9 C15, §5.5",
        note=NOTE + "struct.unpack('>d') and float division in int((st-12)/2) (exact below 2^53) are modelled, not verified.",
        technique="Lean 4 refinement + round-trip proof over hand-written executable model; Python-to-Lean translation of the pure functions with equality theorems (regenerated every run); differential correspondence; constants translator",
    ),
    "C16": dict(
        text="Theorems for every page size >= 512 and every payload size: local payload split of table-leaf and index cells, "
             "overflow page count and last-page fill equal SQLite's formulas; accepted overflow chains have exactly that shape "
             "and reassemble the payload length; pointer-map plan equals SQLite's PTRMAP positions for every database size. "
             "Tied to the real cell classes by exhaustive correspondence over payload sizes (cells of every size incl. the largest local payload u-35), and by translation: the local-payload "
             "arithmetic sliced out of TableLeafCell / IndexLeafCell / IndexInteriorCell.__init__ and calculate_expected_overflow are regenerated from the source on every run and proved equal to the model (Properties/GenFun).",
        design="§9 C16, §5.5", note=NOTE + "usable size = page size (reserved bytes refused); float constants exact for accepted page sizes (checked); the translator and PyPrelude.lean (meaning of the Python operations) are trusted and self-tested against the interpreter.", technique=T + "; Python-to-Lean translation of the arithmetic with equality theorems"),
    "C17": dict(
        text="Theorems: every reported database/WAL/frame/journal header field is the big-endian value at its offset; an accepted "
             "database header satisfies the six format rules; every header SQLite writes is accepted; only the documented error "
             "classes occur; the header-difference classification across commits accepts exactly the legal header transitions "
             "(Properties/C17Step: sound and complete w.r.t. Spec.HeaderStep, which is run on consecutive headers of SQLite-written "
             "histories); the WAL-index (-shm) header (Properties/C17WalIndex): every field of both copies is the value at its wal.c offset in the file's byte order, accepted iff 136 bytes with version 3007000 in both copies, error class determined. "
             "The b-tree page header classes and the WAL-index header classes are regenerated from the Python source on every run and proved equal to the model for every buffer (Properties/GenPage), like the four file-header classes (GenHeader); _parse_database_header_differences and compare_database_headers are regenerated as well and proved equal to the model's classification for every previous header, every accepted new header, committed size and schema flag (Properties/GenHdrDiff, translator hdrdiff.py). "
             "Tied by correspondence over field perturbations (every value of the 1- and 2-byte fields), per-commit "
             "PRAGMA values of WAL histories (with and without store_in_memory, several schema changes per commit) and SQLite-written -shm headers.",
        design="§9 C17", note=NOTE + "reserved-bytes-per-page != 0 is refused by the tool although SQLite allows it (stated assumption).", technique=T),
    "C02": dict(
        text="Theorems on the WAL model: grouping of valid frames into commit records (nothing lost, each record ends in its only commit frame), version count = commit frames, page->frame and page->version indices answer every lookup with the latest frame / record (also with duplicate pages in one transaction), frame image offset = file-format offset, where each version reads each page from (wal_page_source, history_indices), stale-salt frames never served, accepted logs end in a commit frame. Row-level claims by vh.dump correspondence + per-commit SQLite snapshots, an independent checksum-verifying WAL reader for page images, and SQLite's own view of the pair for the newest version.",
        design="§9 C02", note=NOTE + "content level proved (Properties/C02Content: version k serves, for every page it covers, exactly SQLite's snapshot page after the k-th transaction - latest frame at or before the commit else the database file's page; a page written twice shows its last image; every byte taken from the log lies inside the valid run); joined with the tree theorem of C01 in Properties/C02Rows.version_rows: a table b-tree laid out in SQLite's snapshot after the k-th commit (Spec.snapshotIf) is reported by version k with exactly its rows (likewise index entries), and version k parses any root to the same tree as the snapshot; WAL checksums are not read by the tool.", technique=T),
    "C05": dict(
        text="Theorems (Properties/C05): for EVERY cut offset n of the WAL file, the version history of the cut-off log (when accepted) is an initial segment, in commit order, of the history of the whole log, with equal Version records and equal version interfaces as functions (truncated_history_prefix / _pointwise / _take / _eq_restricted); a cut inside the 32-byte header is refused; every version k>=1 of an accepted cut-off history is the commit record of the k-th transaction of the whole log, closed by its commit frame, all of whose frames lie wholly below the cut (versions_committed); cuts right after a commit frame are accepted (non-vacuity). Frame-level half in Properties/C02. Tied by vh.dump correspondence over truncation offsets, per-commit snapshots and SQLite's recovery of the same pair.",
        design="§9 C02/C05", note=NOTE + "truncation only (torn writes inside a frame are outside the quantifier); frame checksums are not verified by the tool nor the model: 'equals what SQLite recovers' is decided by the recovery oracle in the correspondence stage, not by a theorem.", technique=T),
    "C03": dict(
        text="Theorems on the dictionary algebra of VersionParserIterator.next (Properties/C03: replay of one commit report reproduces the new table state for every rowid, every new cell reported exactly once, added/updated disjoint, deleted = vanished cells, unchanged dictionary reports nothing) and on the decision to skip re-reading a b-tree (Properties/C03Skip): the parse of a b-tree depends only on the pages it visited (frame lemma), and when no page of the previous parse is among the commit's updated b-tree pages and the root did not move, a re-read whose pages avoid the new version's schema/freelist/pointer-map pages returns the SAME tree, so the skipped commit rightly reports nothing (skip_sound; skip_sound_wal with every interface hypothesis discharged for commit records of the WAL model). Composed over the whole iteration (Properties/C03Replay): every reported commit is the diff of the true cell dictionaries of two consecutive versions (also for skipped commits), and replaying the reports of the first j+1 commits from the empty table gives, for every rowid, the stored bytes of that row in version j (history_replay; exact cells under digest-determines-cell); a row whose stored bytes did not change is in none of the three lists. Tied by vh.iter correspondence and replay against SQLite's per-commit snapshots.",
        design="§9 C03", note=NOTE + "md5 modelled as identity on the hashed bytes (collision-freeness assumed); skip_sound assumes the new version's census is disjoint (C06) and that the forced re-read would succeed.", technique=T),
    "C10": dict(
        text="Kernel-checked theorems over the model of Signature.__init__ and generate_signature_regex: every examined row's serial "
             "types / classes are in the focused / simplified signature, unique_records = number of distinct digests, per-column "
             "probabilities sum to one exactly, empty tables get the affinity's recommended signature, and the generated pattern full-matches "
             "SQLite's serial-type header of every full-width row under NoLoneEmptyBlob; the unrestricted statement is refuted by a Lean "
             "witness replayed on the code. Model tied to /repo by byte-for-byte regex correspondence, matcher-vs-re validation, stub and "
             "SQLite-written signatures.",
        design="§9 C10", note=NOTE + "partial: needs NoLoneEmptyBlob and serial types < 2^56; parsed-version selection is an input of the model; Python re modelled and validated, not verified.", technique=T),
    "C11": dict(
        text="Lean model of the per-value rendering and row assembly of the CSV/XLSX/SQLite/text exporters (type tests, utf-8/utf-16 "
             "decode-with-replace, '=' guard, XML scrub, truthiness, bound types, padding, naming, commit order); 59 kernel-checked theorems: "
             "per format never-fails / reads-back / five-values-distinct as full statement + counterexample + partial, repr(bytes) injective, "
             "one record per cell. Tied to /repo on every run by stub-cell correspondence through the real _write_cells/write_commit and by "
             "real databases exported and read back with csv/sqlite3/openpyxl/a text parser.",
        design="§9 C11", note=NOTE + "partial: csv, openpyxl, sqlite3 and float repr trusted; decoders tied by correspondence; name quoting not covered; open findings C11-A..G.", technique=T),
    "C07": dict(
        text="Theorems on the model of the ordinary-table SQL parser: affinity rules equal SQLite's for every typetoken except NOT_SPECIFIED "
             "(counterexample kept), the closing-parenthesis scanner on balanced text, name/affinity recovery for Simple column lists. Schema "
             "rows per version by db.dump / vh.dump correspondence. Model tied to OrdinaryTableRow/ColumnDefinition by correspondence on "
             "grammar-generated DDL; oracle: PRAGMA table_xinfo, affinity probing, sqlite_master per WAL commit. Index / view / trigger / "
             "virtual-table row constructors and the row dispatch of MasterSchema.__init__ are modelled too (Model/SchemaRows, Properties/C07Rows, "
             "23 theorems: view and trigger rows accepted and reported unchanged for every SQL text, index rows for every name quoting style / "
             "capitalisation of ON / whitespace, internal autoindex rows flagged, module name of virtual tables, whatever is accepted is reported "
             "as the row SQLite stored; full statements refuted with witnesses replayed on the code), tied by ddl.row / ddl.schema correspondence "
             "on statements as SQLite stores them.",
        design="§9 C07, §17", note=NOTE + "partial: indexed-column lists, WHERE clauses, view SELECTs, trigger bodies and module arguments are opaque text to the code and to the claim; comments inside the gaps of CREATE INDEX / VIRTUAL TABLE by correspondence only; open findings C07-03/09/13/17/19 (and C07-20/21/22 until repaired).", technique=T + "; DDL grammar generator"),
    "C04": dict(
        text="Theorems decided over the regenerated table of every file-system call site under sqlite_dissect/: every site whose path can "
             "derive from evidence only reads or stats and opens 'r'/'rb'; sqlite3.connect gets output paths only; every mutating site takes its "
             "path from --directory / --file-prefix / output names or --log-file (XLSX spool files excepted: counterexample + partial); written "
             "files are children of the output directory when prefix and table names contain no separator. Completeness of the table and the "
             "run-time half by audit-hook correspondence over the CLI option lattice and library scenarios with before/after evidence snapshots.",
        design="§5.3, §9 C04", note=NOTE + "partial: symlinks/hard links, atime, evidence directory named as output, C-level I/O of sqlite3 (snapshots only) are outside; read-only media covered by the audit rule only.", technique="Lean 4 decision over AST-translated call-site table (translator fs_effects.py) + audit-hook correspondence in subprocesses"),
    "C12": dict(
        text="Theorems over Model.Cli (ordered checks and export plan of entrypoint.main, parametric in the library): --tables is exactly a "
             "filter of the plan, --no-journal equals the database-only outcome, --carve changes neither validation nor the plan except for "
             "signatures, formats are independent, option-level refusals happen before anything but the log file exists (full statement "
             "refuted: later refusals leave an empty directory). Option table regenerated from parse_args. Tied by cli.plan correspondence "
             "over the option lattice in fresh subprocesses; exported CSV/SQLite rows compared with API iteration.",
        design="§9 C12", note=NOTE + "partial: row values are C11; text/XLSX compared at entry level; multi-input runs at validation level; open findings C12-F1..F5.", technique="Lean 4 theorems over hand-written CLI model + AST-translated option table (translator options.py) + subprocess correspondence"),
    "C18": dict(
        text="Theorems bounding the model's loops independently of damaged size fields: freeblock walk ends within 65537 steps with strictly ascending offsets, accepted overflow chains visit pairwise distinct pages and never exhaust their fuel, the expected-overflow count is a closed form, carving completes on arbitrary bytes (C08.completes), the journal carver never reads past the end; the b-tree walk of the repaired code (fix cbbc570: a page reached twice in one descent is a parse error) constructs no page twice, its log of constructions is duplicate free on success and on failure, and it starts at most D constructions on a D-page version whatever the child pointers say (btree_walk_constructions_le_db / _wal; the pre-repair construction took fanout^depth steps on a DAG, witness dag_refused); the WAL-index scan performs at most (size-136)/4 + size/2 + 2 reads on every file (C18Scan); recursion through freelist trunk pointers is bounded by the recursion-limit parameter (RecursionError); the signature regular expression (Properties/C18Regex, over a counted twin of the matcher that provably computes the same matches): at most 20*columns+1 steps per attempt and (length+1) times that per scan on EVERY subject when no column lists both blob and text, while the unrestricted linear bound is REFUTED - n blob-and-text columns cost exactly 11*2^n-10 steps on a subject of n bytes (open finding C18-R1, reproduced on the real code on every run with two controls). Tied by db.dump / vh.dump correspondence on targeted corruptions of every link / count / size field (cycles among later freeblocks, overflow cycles with a consistent huge size per cell kind, shared children and appended chains of interior pages), pairs, truncations, bit flips and damaged WALs, each run through parsing, census, version history, signatures, carving and iteration in a worker under a time limit (max(10 s, 200 x clean run)) and an address-space limit.",
        design="§9 C18", note=NOTE + 'partial: seconds and RSS are measured, not proved; cost of the recursion-limit-bounded freelist trunk walk is large but finite; many cells sharing one long overflow chain cost cells x pages (quadratic for a crafted file; each damaged cell at most one pass); the signature / carving stages on damaged input are covered by the resource oracle, the correspondence covers parsing and version history; open finding C18-R1 (exponential backtracking of the carving regex on tables whose columns hold both TEXT and BLOB; pinned by the repo\'s tests, not repaired).', technique=T + "; targeted byte-level corruption with resource-limited workers"),
    "C08": dict(
        text="Theorems over the model of SignatureCarver / CarvedRecord / the iterator's carving fold (Properties/C08): carving COMPLETES on every region (unallocated area, freelist page, journal image, freeblock; every signature incl. one-column tables) - result or, beyond 2^53 bytes, the model's own outside-model mark, no exception class escapes; every carved cell's file offset and bytes are backed by the region (freeblocks through content_start_offset); the digest is the record's bytes; pairwise distinct digests over a history (no re-report); the journal carver never reads past the end. Former escapes are kept as fixed_* witnesses. Tied by carve.record / region / table / iter / journal correspondence against the real carver on generated regions and SQLite-written databases, WALs and journals.",
        design="§9 C08", note=NOTE + "partial: 'inside free space of a page of that table, never inside a live cell' by oracle (independent page reader) only; sizes < 2^53; Python re validated, not verified.", technique=T),
    "C09": dict(
        text="Theorems (Properties/C09): recall of an intact record at record and region level without assuming that carving completed (recall_region_total), first-match scan lemma, a generated pattern's match is exactly the serial-type header (self-delimiting varints), first column recovered from the freeblock size or a single possible type, digests separate rows at different places; recall through the iterator's digest dictionary holds for pairwise distinct digests and is refuted in general by Lean witnesses (identical bytes; the one-column collision C09-05). Tied by carving correspondence; deletion grid over page size x column shape x position x residue location (freeblock, unallocated, freelist page, WAL frames, journals incl. pages cut off the end of the file) with an independent before/after byte reader.",
        design="§9 C09", note=NOTE + 'region-level recall through the freeblock / partial pattern is a theorem now (Properties/C09Freeblock: recall_freeblock_record / _total / _candidate, scan_reports_freeblock_header, under FreedCell and FirstColumnRecoverable); partial: cells with two-byte serial types or header sizes, overflowing cells, coalesced freeblocks, single-column tables and the iterator / de-duplication level are decided by the grid; open findings C09-02/03/05/06/07.', technique=T),
    "C06": dict(
        text="Theorems on the page-layout check (Properties/C06: stable sort, telescoping identity, every SQLite-well-formed layout accepted with fragment total = header count, accepted layouts tile [content offset, page end) without overlap or gap, strict checking irrelevant on accepted pages, freeblock walk bounded and ascending) and the page round trip (Properties/C01Tree: a page laid out as Spec.PageLaidOut — header, pointer array, cells with SQLite's 4-byte minimum allocation, freeblock chain, <= 60 fragment bytes — is parsed to exactly its cells and freeblocks). Spec.PageLaidOut is run (executable form, proved equivalent) on the pages SQLite wrote. Page census tied by full-dump correspondence and SQLite's dbstat / page_count / freelist_count / integrity_check, per version for WAL histories. BTreePageHeader / LeafPageHeader / InteriorPageHeader and the body of OverflowPage.__init__ are regenerated from the Python source on every run and proved equal to the model parsers for every page (Properties/GenPage).",
        design="§9 C06", note=NOTE + 'census (Properties/C06Census): an accepted census has exactly the keys 1..N, the class of each page is that of the last source listing it, and under pairwise disjoint sources (what SQLite guarantees; measured against dbstat) every page is listed exactly once with the class of that source; the two checks of the code alone do NOT detect a page listed twice when all of 1..N are covered (census_accepts_iff_pages_covered, machine-checked witness) - relevant to damaged files only.', technique=T),
    "C01": dict(
        text='Theorems (Properties/C01Tree, C01Cell, C01): a table b-tree laid out in the file as SQLite lays it out (Spec.TreeLaidOut over Spec.PageLaidOut over Spec.writeTableLeafCell / encodeRecord, any depth, overflow chains, page 1 included) is parsed, given the stated recursion budget, into exactly its leaf cells in traversal order, each with the stored rowid and column values (table_tree_rows); cell- and page-level round trips; codecs (C15), payload split / chain shape (C16), layout acceptance (C06). The specification is validated against files SQLite wrote (every sampled live cell and page satisfies it). Full-pipeline executable model compared section by section with the implementation over the whole configuration grid, rows compared with SQLite.',
        design="§9 C01", note=NOTE + 'the whole-database statement (schema row -> root page -> tree) is composed by the correspondence, not by one theorem; schema SQL parsing is outside the model; usable size = page size (reserved bytes are refused by the tool).', technique=T),
    "C14": dict(
        text='Theorems (Properties/C14, C01Tree, C01Cell): an index / WITHOUT ROWID b-tree laid out as SQLite lays it out (pairwise distinct pages) is parsed into exactly its cells — interior cells included — with the stored values and overflow reassembled (C14.index_entries, index_leaf_page_entries, index_leaf_cell_roundtrip); the leaf-only listing visits exactly the leaf entries with the stored values, a sub-list of all entries (C14.leaf_listing, leaf_listing_subset), and never an interior entry (interior_entries_not_listed); index payload arithmetic in C16. Same model and correspondence as C01, entries compared as multisets with the entries SQLite holds, one-column WITHOUT ROWID tables (3-byte cells) included.',
        design="§9 C14", note=NOTE + 'key order / uniqueness of index entries is not part of the property; collation is irrelevant to decoding.', technique=T),
    "C13": dict(
        text="Theorems: relaxed checking never changes an accepted layout / tree / walk / database (strict_irrelevant, tree_, walk_, database_strict_irrelevant), store-in-memory and a true explicit size are irrelevant to what Database returns; argument forwarding of EVERY constructor call in the library decided over the call-site table regenerated from the source on every run (Properties/C13Calls: forwarding_by_name, interface_helpers_forward). Model/implementation correspondence under "
             "every (store_in_memory, strict) combination; implementation compared pairwise over 52 configurations (path, file object, file object opened by relative name with a decoy) and run twice; histories incl. shrinking ones.",
        design="§9 C13, §5.6", note=NOTE + "partial: cache_eq_fresh and the file-object identifier kinds are decided by the pairwise run, not by theorems.", technique=T + "; AST translator for constructor call sites"),
}

ALL = ["C%02d" % i for i in range(1, 19)]


def main():
    checks = []
    for pid in ALL:
        if pid not in CLAIMED:
            continue
        c = CLAIMED[pid]
        checks.append({
            "property_id": pid,
            "quick_cmd": f"./check {pid} --tier quick",
            "thorough_cmd": f"./check {pid} --tier thorough",
            "evidence_file": f"evidence/{pid}.json",
            "replay_cmd_template": f"./check {pid} --replay {{path}}",
            "engine": "lean-proof+correspondence",
            "level_claimed": {"category": "proof", "text": c["text"], "design_ref": c["design"]},
            "level_note": c["note"],
            "technique": c["technique"],
        })
    m = {
        "version": 1,
        "setup_cmd": "cd lean && lake build",
        "hooks": {
            "guard": "SQLITE_DISSECT_VERIF",
            "enable": "no source hooks: instrumentation is injected in-process by the harness (sys.addaudithook, wrappers); "
                      "./check exports SQLITE_DISSECT_VERIF=1 for the harness only",
            "baseline_off_cmd": "cd /repo && /venv/bin/python -m pytest -ra -q -p no:cacheprovider --timeout=900 --continue-on-collection-errors",
            "source_commits": [],
            "add_only": True,
        },
        "engines": [{
            "name": "lean-proof+correspondence",
            "path": "check",
            "serves_properties": sorted(CLAIMED),
            "kind_free_text": "Lean 4 theorems over an executable model (lean/), model tied to /repo by a Python differential harness (harness/) driving the compiled model (sdmodel) over a line protocol",
        }],
        "checks": checks,
        "not_applicable": [
            {"property_id": pid, "reason": "check not built yet in this session (planned: DESIGN.md §9); no claim made until its theorem and correspondence exist"}
            for pid in ALL if pid not in CLAIMED
        ],
        "notes": "See DESIGN.md. known_findings.json lists open findings and fixed: entries.",
    }
    json.dump(m, open("MANIFEST.json", "w"), indent=1)


if __name__ == "__main__":
    main()
