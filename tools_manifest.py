#!/usr/bin/env python3
"""Regenerates MANIFEST.json from the table below (kept in one place so it stays valid)."""
import json

CLAIMED = {
    "C15": dict(
        text="Kernel-checked Lean 4 theorems: the model of decode_varint/encode_varint/decode_varint_in_reverse/"
             "get_record_content/get_content_size/calculate_body_content_size equals the SQLite varint and serial-type "
             "specification for every input (no size bound); model tied to /repo on every run by differential "
             "correspondence over all 1-2 byte strings, all width boundaries and random 64-bit values.",
        design="§9 C15",
        note="Trusted: Lean kernel (axioms propext, Classical.choice, Quot.sound only), Spec.Varint/Spec.SerialType as the "
             "statement of SQLite's encodings, the correspondence harness and sdmodel code generation; struct.unpack('>d') "
             "and float division in int((st-12)/2) (exact below 2^53) are modelled, not verified.",
        technique="Lean 4 refinement + round-trip proof over hand-written executable model; differential correspondence; constants translator",
    ),
}

ALL = ["C%02d" % i for i in range(1, 19)]


def main():
    checks = []
    for pid in ALL:
        if pid not in CLAIMED:
            continue
        c = CLAIMED[pid]
        checks.append({
            "property_id": pid,
            "quick_cmd": f"./check {pid} --tier quick",
            "thorough_cmd": f"./check {pid} --tier thorough",
            "evidence_file": f"evidence/{pid}.json",
            "replay_cmd_template": f"./check {pid} --replay {{path}}",
            "engine": "lean-proof+correspondence",
            "level_claimed": {"category": "proof", "text": c["text"], "design_ref": c["design"]},
            "level_note": c["note"],
            "technique": c["technique"],
        })
    m = {
        "version": 1,
        "setup_cmd": "cd lean && lake build",
        "hooks": {
            "guard": "SQLITE_DISSECT_VERIF",
            "enable": "no source hooks: instrumentation is injected in-process by the harness (sys.addaudithook, wrappers); "
                      "./check exports SQLITE_DISSECT_VERIF=1 for the harness only",
            "baseline_off_cmd": "cd /repo && /venv/bin/python -m pytest -ra -q -p no:cacheprovider --timeout=900 --continue-on-collection-errors",
            "source_commits": [],
            "add_only": True,
        },
        "engines": [{
            "name": "lean-proof+correspondence",
            "path": "check",
            "serves_properties": sorted(CLAIMED),
            "kind_free_text": "Lean 4 theorems over an executable model (lean/), model tied to /repo by a Python differential harness (harness/) driving the compiled model (sdmodel) over a line protocol",
        }],
        "checks": checks,
        "not_applicable": [
            {"property_id": pid, "reason": "check not built yet in this session (planned: DESIGN.md §9); no claim made until its theorem and correspondence exist"}
            for pid in ALL if pid not in CLAIMED
        ],
        "notes": "See DESIGN.md. known_findings.json lists open findings and fixed: entries.",
    }
    json.dump(m, open("MANIFEST.json", "w"), indent=1)


if __name__ == "__main__":
    main()
