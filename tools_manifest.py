#!/usr/bin/env python3
"""Regenerates MANIFEST.json from the table below (kept in one place so it stays valid)."""
import json

T = 'Lean 4 refinement / invariant proof over hand-written executable model; differential correspondence (db.dump / vh.dump line protocol); SQLite as oracle; constants translator'
NOTE = "Trusted: Lean kernel (axioms propext, Classical.choice, Quot.sound only), Spec.* as the statement of SQLite's format, the correspondence harness and sdmodel code generation, SQLite 3.40.1 as oracle. "

CLAIMED = {
    "C15": dict(
        text="Kernel-checked Lean 4 theorems: the model of decode_varint/encode_varint/decode_varint_in_reverse/"
             "get_record_content/get_content_size/calculate_body_content_size equals the SQLite varint and serial-type "
             "specification for every input (no size bound); model tied to /repo on every run by differential "
             "correspondence over all 1-2 byte strings, all width boundaries and random 64-bit values.",
        design="§9 C15",
        note=NOTE + "struct.unpack('>d') and float division in int((st-12)/2) (exact below 2^53) are modelled, not verified.",
        technique="Lean 4 refinement + round-trip proof over hand-written executable model; differential correspondence; constants translator",
    ),
    "C16": dict(
        text="Theorems for every page size >= 512 and every payload size: local payload split of table-leaf and index cells, "
             "overflow page count and last-page fill equal SQLite's formulas; accepted overflow chains have exactly that shape "
             "and reassemble the payload length; pointer-map plan equals SQLite's PTRMAP positions for every database size. "
             "Tied to the real cell classes by exhaustive correspondence over payload sizes.",
        design="§9 C16", note=NOTE + "usable size = page size (reserved bytes refused); float constants exact for accepted page sizes (checked).", technique=T),
    "C17": dict(
        text="Theorems: every reported database/WAL/frame/journal header field is the big-endian value at its offset; an accepted "
             "database header satisfies the six format rules; every header SQLite writes is accepted; only the documented error "
             "classes occur. Tied by correspondence over field perturbations and per-commit PRAGMA values of WAL histories.",
        design="§9 C17", note=NOTE + "header difference classification across commits is modelled and tied by correspondence (its theorems are partial).", technique=T),
    "C02": dict(
        text="Theorems on the WAL model: grouping of valid frames into commit records (nothing lost, each record ends in its only commit "
             "frame), version count = commit frames, page->frame and page->version indices answer every lookup with the latest frame / "
             "record (also with duplicate pages in one transaction), frame image offset = file-format offset, stale-salt frames never "
             "served, accepted logs end in a commit frame. Row-level claims by vh.dump correspondence + per-commit SQLite snapshots, an "
             "independent checksum-verifying WAL reader for page images, and SQLite's own view of the pair for the newest version.",
        design="§9 C02", note=NOTE + "partial: the composition 'version k rows = SQLite rows after commit k' is decided by correspondence + snapshots, not by one end-to-end theorem; WAL checksums are not read by the tool.", technique=T),
    "C05": dict(
        text="Theorems: the frame count of a file cut at n bytes is the number of whole frames; every frame the truncated parse sees is, field "
             "for field, the frame at that index of the full file (prefix); records of a prefix ending in a commit frame are a prefix of the "
             "records; an accepted log ends in a commit frame (no frame of an unfinished transaction reaches the version history). Tied by "
             "vh.dump correspondence over truncation offsets, per-commit snapshots and SQLite's recovery of the same pair.",
        design="§9 C02/C05", note=NOTE + "truncation only (torn writes inside a frame are outside the quantifier); partial: version-level prefix theorem not composed end to end.", technique=T),
    "C03": dict(
        text="Theorems on the dictionary algebra of VersionParserIterator.next: replaying one commit report on the previous table state gives "
             "exactly the new state for every rowid (under rowid uniqueness and digest-determines-rowid), every new cell is reported exactly once, "
             "added/updated disjoint, classification of rowids, deleted = vanished cells whose rowid did not return, unchanged dictionary reports "
             "nothing. Tied by vh.iter correspondence and replay against SQLite's per-commit snapshots.",
        design="§9 C03", note=NOTE + "md5 modelled as identity on the hashed bytes (collision-freeness assumed); partial: skip_sound (an untouched b-tree has unchanged cells) is decided by the replay oracle, not by a theorem.", technique=T),
    "C06": dict(
        text="Theorems on the page-layout check: stable sort, telescoping identity, every SQLite-well-formed layout is accepted with "
             "fragment total = header count, accepted layouts tile [content offset, page end) without overlap or gap, strict checking "
             "is irrelevant on accepted pages, freeblock walk bounded and ascending. Page census tied by full-dump correspondence and "
             "SQLite's dbstat / freelist_count / integrity_check.",
        design="§9 C06", note=NOTE + "census theorem (each page classified exactly once) is partial: decided by correspondence + dbstat, not yet by a Lean theorem over ConsistentDb.", technique=T),
    "C01": dict(
        text="Full-pipeline executable model (Database.__init__, page/cell/record/overflow/tree parsing) compared section by section with "
             "the implementation on SQLite-written databases over the whole configuration grid, rows compared with SQLite; theorems from "
             "C15 (codecs), C16 (payload split, chain shape) and C06 (layout acceptance) cover the mechanisms the property names.",
        design="§9 C01", note=NOTE + "partial: the end-to-end refinement theorem tree_rows over Spec.ConsistentDb is not proved; schema SQL parsing is outside the model.", technique=T),
    "C14": dict(
        text="Same model and correspondence as C01 for index and WITHOUT ROWID b-trees (leaf and interior cells), entries compared as "
             "multisets with the entries SQLite holds; index payload arithmetic proved in C16.",
        design="§9 C14", note=NOTE + "partial: no end-to-end Lean theorem over index b-trees yet.", technique=T),
    "C13": dict(
        text="Theorem strict_irrelevant (relaxed checking never changes an accepted layout) plus model/implementation correspondence under "
             "every (store_in_memory, strict) combination; implementation compared pairwise over all 48 configurations and run twice.",
        design="§9 C13", note=NOTE + "partial: cache_eq_fresh / entry_irrelevant are decided by the pairwise run, not by theorems.", technique=T),
}

ALL = ["C%02d" % i for i in range(1, 19)]


def main():
    checks = []
    for pid in ALL:
        if pid not in CLAIMED:
            continue
        c = CLAIMED[pid]
        checks.append({
            "property_id": pid,
            "quick_cmd": f"./check {pid} --tier quick",
            "thorough_cmd": f"./check {pid} --tier thorough",
            "evidence_file": f"evidence/{pid}.json",
            "replay_cmd_template": f"./check {pid} --replay {{path}}",
            "engine": "lean-proof+correspondence",
            "level_claimed": {"category": "proof", "text": c["text"], "design_ref": c["design"]},
            "level_note": c["note"],
            "technique": c["technique"],
        })
    m = {
        "version": 1,
        "setup_cmd": "cd lean && lake build",
        "hooks": {
            "guard": "SQLITE_DISSECT_VERIF",
            "enable": "no source hooks: instrumentation is injected in-process by the harness (sys.addaudithook, wrappers); "
                      "./check exports SQLITE_DISSECT_VERIF=1 for the harness only",
            "baseline_off_cmd": "cd /repo && /venv/bin/python -m pytest -ra -q -p no:cacheprovider --timeout=900 --continue-on-collection-errors",
            "source_commits": [],
            "add_only": True,
        },
        "engines": [{
            "name": "lean-proof+correspondence",
            "path": "check",
            "serves_properties": sorted(CLAIMED),
            "kind_free_text": "Lean 4 theorems over an executable model (lean/), model tied to /repo by a Python differential harness (harness/) driving the compiled model (sdmodel) over a line protocol",
        }],
        "checks": checks,
        "not_applicable": [
            {"property_id": pid, "reason": "check not built yet in this session (planned: DESIGN.md §9); no claim made until its theorem and correspondence exist"}
            for pid in ALL if pid not in CLAIMED
        ],
        "notes": "See DESIGN.md. known_findings.json lists open findings and fixed: entries.",
    }
    json.dump(m, open("MANIFEST.json", "w"), indent=1)


if __name__ == "__main__":
    main()
